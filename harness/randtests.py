"""The randomised test functions: generators of structured inputs, recorded calls into /repo,
decoding of the draws the implementation consumed, the matching model operation and the comparison
of both sides.  Used by C01–C06 and C16."""
from fractions import Fraction as Fr
import numpy as np
from .common import run_model, guarded, rat, rats, ints, rows, rows3, frac, fracs, fields, close, numerator_of, F, POOL
from .prng import RecSHA256, RecRandomState, Draws

ALTS = ["greater", "less", "two-sided"]


SLACK = 0.0     # absolute slack for data on a large baseline (set per case by compare_recorded from p["offset"], see apply_offset)


def close(x, q, rel=1e-9, ab=0.0):
    """float x agrees with the exact rational q — *relative* tolerance only (data may be scaled by
    2^-40), an exact zero must come out as an exact zero unless an absolute slack is asked for"""
    xf, qf = float(x), float(q)
    ab = ab + SLACK
    if q == 0:
        return abs(xf) <= ab
    return abs(xf - qf) <= ab + rel * abs(qf)


def apply_offset(p, rng, name):
    """put the data on a large baseline (2^20 .. 2^30 plus the small values; exact in doubles and in the model): formulas that are
    algebraically equal to the documented statistic but cancel catastrophically (sum of squares minus n*mean^2, ...) only show
    far from zero.  Only for statistics whose documented form is stable there (differences of means, between-group sums of
    squares of centred means, linear statistics); comparisons then get an absolute slack of a few hundred ulps of the baseline
    times the spread of the data, which a cancelling formula exceeds by many orders of magnitude."""
    ok = (name in ("two_sample", "stratified_two_sample") and p.get("stat") in ("mean",)) or (name == "k_sample" and p.get("stat") == "anova")
    if not ok or p.get("scale", 1.0) != 1.0 or p.get("noscale") or rng.random() >= 0.3:
        return
    base = float(rng.choice([2**24, 2**30, 2**30, 2**36]))
    keys = [k for k in ("x", "y", "resp") if p.get(k) is not None]
    spread = max(abs(v) for k in keys for v in p[k]) + 1.0
    n = sum(len(p[k]) for k in keys)
    for k in keys:
        p[k] = [v + base for v in p[k]]
    p["offset"] = base
    p["slack"] = 256 * n * spread * base * 2.0 ** -52


SCALES = [1.0] * 8 + [2.0 ** -20, 2.0 ** -40, 2.0 ** 30]


def apply_scale(p, rng, keys=("x", "y", "resp")):
    """multiply the data by a power of two (exact in doubles and in the model): a change that compares
    statistics with an absolute tolerance, or rounds them, only bites at small or large scales"""
    sc = 1.0 if p.get("noscale") else rng.choice(SCALES)
    if sc != 1.0:
        for k in keys:
            if p.get(k) is not None:
                p[k] = [v * sc for v in p[k]]
        if "shift" in p:
            p["shift"] = p["shift"] * sc
    p["scale"] = sc
    return p


# ----------------------------------------------------------------------------- small helpers
def small_values(rng, n, kind=None):
    """data on grids for which the exact statistics are exactly representable or nearly so"""
    kind = kind or rng.choice(["ints", "ties", "binary", "halves", "wide"])
    if kind == "ints":
        return [float(rng.randint(-5, 9)) for _ in range(n)]
    if kind == "ties":
        return [float(rng.choice([0, 1, 1, 2, 3])) for _ in range(n)]
    if kind == "binary":
        return [float(rng.randint(0, 1)) for _ in range(n)]
    if kind == "halves":
        return [rng.randint(-8, 8) / 2 for _ in range(n)]
    return [float(rng.randint(-40, 40)) for _ in range(n)]


def pick_reps(rng, small=12):
    """mostly few repetitions, sometimes many: a change that only bites past a threshold (a 'fast path'
    for large reps) must not escape"""
    u = rng.random()
    if u < 0.85:
        return rng.randint(1, small)
    if u < 0.95:
        return rng.randint(30, 60)
    return rng.choice([128, 257, 1001])


def pick_n(rng, lo, hi, big=25):
    """mostly small sizes, sometimes larger ones"""
    u = rng.random()
    if u < 0.02:
        return rng.choice([31, 32, 33, 64, 65, 129, 257])      # lengths on and just past powers of two
    return rng.randint(lo, hi) if u < 0.88 else rng.randint(hi + 1, big)


def weights(rng, n):
    return [rng.randint(-3, 4) for _ in range(n)]


def mk_generator(rng, kind=None):
    kind = kind or rng.choice(["sha", "sha", "rs"])
    seed = rng.randint(0, 10**9)
    return (RecSHA256(seed) if kind == "sha" else RecRandomState(seed)), kind, seed


def parse_args2(s):
    """`a;b#a;b#…` → list of (list, list)"""
    if not s.strip():
        return []
    out = []
    for part in s.split("#"):
        a, b = part.split(";")
        out.append((fracs(a), fracs(b)))
    return out


def parse_rows(s, conv=frac):
    if s.strip() == "":
        return []
    return [[conv(t) for t in r.split()] for r in s.split(";")]


def exact_list(a):
    return [F(v) for v in np.asarray(a, dtype=float).ravel()]


class Problem(Exception):
    pass


LABEL_KINDS = ["int", "int", "float-frac", "neg", "str", "float-whole", "int8-wide", "int16-wide", "str-case"]
CASE_LABELS = sorted([" a", "A", "B", "a", "a ", "b", "b ", "C", "c", " c", "S1", "s1", "s1 "])      # distinct labels that differ only in case / padding


def enc(p, key):
    """label array for the integer codes p[key]; every encoding is order preserving, so np.unique visits
    the strata in the order of the codes the model sees"""
    kind = p.get("lab", "int")
    codes = p[key]
    if kind == "float-frac":
        vals = [0.25 + 0.5 * c for c in codes]          # distinct labels sharing an integer part
    elif kind == "float-whole":
        vals = [float(c) for c in codes]
    elif kind == "neg":
        vals = [7 * c - 10 for c in codes]              # negative, non-contiguous integers
    elif kind == "str":
        vals = ["g%02d" % c for c in codes]
    elif kind == "str-case" and all(0 <= c < len(CASE_LABELS) for c in codes):
        vals = [CASE_LABELS[c] for c in codes]
    elif kind == "int8-wide" and all(0 <= c <= 9 for c in codes):
        # labels spread over the whole range of a narrow signed type: differences of adjacent labels overflow in that type
        return POOL.get("lab-" + key, [25 * c - 120 for c in codes], np.int8)
    elif kind == "int16-wide" and all(0 <= c <= 9 for c in codes):
        return POOL.get("lab-" + key, [7000 * c - 32000 for c in codes], np.int16)
    else:
        vals = list(codes)
    return POOL.get("lab-" + key, vals)


def dec(p, a):
    kind = p.get("lab", "int")
    out = []
    for v in np.asarray(a).tolist():
        if kind == "float-frac":
            out.append(int(round((v - 0.25) / 0.5)))
        elif kind == "neg":
            out.append(int(round((v + 10) / 7)))
        elif kind == "str" or (kind == "str-case" and isinstance(v, str) and v[:1] == "g" and v[1:].isdigit()):
            out.append(int(v[1:]))
        elif kind == "str-case" and isinstance(v, str):
            out.append(CASE_LABELS.index(v))
        elif kind == "int8-wide" and (int(v) + 120) % 25 == 0:
            out.append((int(v) + 120) // 25)
        elif kind == "int16-wide" and (int(v) + 32000) % 7000 == 0:
            out.append((int(v) + 32000) // 7000)
        else:
            out.append(int(v))
    return out


def arr(p, key):
    """the caller's array for p[key]: float64, or int64 when requested and every value is integral"""
    v = p[key]
    if p.get("container") in ("list", "tuple"):      # plain Python sequences (functions documented as taking array-likes)
        seq = [float(t) for t in v]
        return seq if p["container"] == "list" else tuple(seq)
    if p.get("readonly"):      # data the caller cannot write to (a read-only memory map, a view of an immutable buffer)
        a = np.array([float(t) for t in v]); a.flags.writeable = False
        return a
    if p.get("uintdtype") and all(float(t).is_integer() and 0 <= t < 250 for t in v):      # counts held in an unsigned byte
        return np.array([int(t) for t in v], dtype=np.uint8)
    if p.get("intdtype") and all(float(t).is_integer() and abs(t) < 2**40 for t in v):
        return POOL.get(key, [int(t) for t in v], np.int64)
    return POOL.get(key, v, float)


def _const(a):
    return len(set(a)) <= 1


def t_degenerate(pairs):
    """some rearrangement has zero pooled variance or an empty sample: the t statistic is not finite
    there, which puts the data outside the properties' quantifier"""
    return any((_const(u) and _const(v)) or len(u) + len(v) < 3 or len(u) == 0 or len(v) == 0 for u, v in pairs)


# ----------------------------------------------------------------------------- function wrappers
class Fn:
    """one randomised function of /repo: how to generate, call, decode, model and compare"""
    name = ""
    site = ""

    def hits_from_p(self, p, alt, plus1, reps):
        """numerator of a returned p-value (F3); for two-sided the capped doubled minimum"""
        c = 1 if plus1 else 0
        if alt == "two-sided":
            k = numerator_of(p, reps + c)      # min(1, 2*min) has numerator 2*min(numerators) capped
            return k
        return numerator_of(p, reps + c)


PAIRS = {"neg": ((lambda u: -u), (lambda u: -u)), "double": ((lambda u: 2 * u), (lambda u: u / 2)),
         "square": ((lambda u: u ** 2), (lambda u: np.sqrt(u))), "cube": ((lambda u: u ** 3), (lambda u: np.cbrt(u))),
         # invertible, piecewise linear with dyadic slopes (exact in doubles), and exactly a translation / the identity on the points 1..5
         # that the library probes: a translation must not be *inferred* from those points
         "kink2": ((lambda u: np.where(u <= 10, u + 2, 2 * u - 8)), (lambda v: np.where(v <= 12, v - 2, (v + 8) / 2))),
         "kinkid": ((lambda u: np.where(u <= 6, u, 2 * u - 6)), (lambda v: np.where(v <= 6, v, (v + 6) / 2))),
         "neghalf": ((lambda u: np.where(u >= 0, u, u / 2)), (lambda v: np.where(v >= 0, v, 2 * v)))}


class TwoSample(Fn):
    name = "two_sample"; site = "two_sample"
    shift = False

    def gen(self, rng):
        nx, ny = pick_n(rng, 1, 6), pick_n(rng, 1, 6)
        if rng.random() < 0.15:
            nx, ny = rng.choice([(1, 1), (1, 4), (5, 1), (7, 7)])
        kind = rng.choice(["ints", "ties", "binary", "halves"])
        x, y = small_values(rng, nx, kind), small_values(rng, ny, kind)
        stat = rng.choice(["mean", "t", "callable", "callable"])
        if stat == "t" and (nx + ny < 3 or len(set(x + y)) < 2) and rng.random() < 0.6:
            stat = "mean"
        elif stat == "t" and rng.random() < 0.12:
            x, y = [1.0] * nx, [0.0] * ny      # perfectly separated constant samples: t = +inf, and some re-allocations reproduce it
        p = {"x": x, "y": y, "reps": pick_reps(rng), "alt": rng.choice(ALTS), "plus1": rng.random() < 0.5,
             "keep": rng.random() < 0.5, "stat": stat, "wx": weights(rng, nx), "wy": weights(rng, ny)}
        if self.shift:
            p["shift"] = rng.choice([0, 2, -3, 0.5, -1.5, 7, 1000])
            p["pair"] = rng.random() < 0.3
            if rng.random() < 0.3:     # invertible pairs that are not translations
                p["pairkind"] = rng.choice(["neg", "double", "square", "cube", "kink2", "kinkid", "neghalf"])
                if p["pairkind"] in ("kink2", "kinkid", "neghalf"):      # data on both sides of the kink
                    p["x"] = [float(rng.randint(-8, 24)) for _ in p["x"]]; p["y"] = [rng.randint(-16, 40) / 2 for _ in p["y"]]
                if p["pairkind"] == "square":   # non-negative data whose square roots are exact
                    p["x"] = [float(rng.choice([0, 1, 4, 9, 16, 25])) for _ in p["x"]]
                    p["y"] = [float(rng.choice([0, 1, 2, 3, 4, 5])) for _ in p["y"]]
                elif p["pairkind"] == "cube":
                    p["x"] = [float(rng.choice([-8, -1, 0, 1, 8, 27])) for _ in p["x"]]
                    p["y"] = [float(rng.choice([-2, -1, 0, 1, 2, 3])) for _ in p["y"]]
                if p["stat"] == "t" and (len(set(p["x"] + p["y"])) < 3):
                    p["stat"] = "mean"
                p["noscale"] = True      # squares / cubes / roots are only exact on the unscaled grids
        return p

    def statfn(self, p, seen):
        if p["stat"] != "callable":
            return p["stat"]
        wx, wy = np.array(p["wx"], dtype=float), np.array(p["wy"], dtype=float)
        kind = p.get("ret", "np")
        def f(u, v):
            seen.append((np.array(u, dtype=float).copy(), np.array(v, dtype=float).copy()))
            val = float(np.dot(wx, u) + np.dot(wy, v))
            return {"np": np.float64(val), "float": val, "int": int(val) if val.is_integer() else val}[kind]
        return f

    def call(self, p, prng):
        from permute import core
        seen = []
        x, y = arr(p, "x"), arr(p, "y")
        kw = dict(reps=p["reps"], stat=self.statfn(p, seen), alternative=p["alt"], keep_dist=p["keep"], seed=prng, plus1=p["plus1"])
        if self.shift:
            d = p["shift"]
            sh = ((lambda u: u + d), (lambda u: u - d)) if p["pair"] else d
            if p.get("pairkind"):
                sh = PAIRS[p["pairkind"]]
            r = guarded(core.two_sample_shift, x, y, shift=sh, **kw)
        else:
            r = guarded(core.two_sample, x, y, **kw)
        return r, seen

    def draws(self, p, log):
        d = Draws(log)
        N = len(p["x"]) + len(p["y"])
        out = [d.pyshuffle(N) for _ in range(p["reps"])]
        if not d.done():
            raise LookupError(f"{len(d.rest())} generator requests beyond the modelled ones: {d.rest()[:2]}")
        return out

    def statspec(self, p):
        return {"mean": "mean", "t": "t"}.get(p["stat"], f"wsum:{ints(p['wx'])}:{ints(p['wy'])}")

    def op(self, p, draws):
        head = f"{p['alt']}|{int(p['plus1'])}|{rats(p['x'])}|{rats(p['y'])}"
        if self.shift and p.get("pairkind"):
            c0, c1 = self.table(p)
            return f"twosamplecore|{p['alt']}|{int(p['plus1'])}|{len(p['x'])}|{rats(c0)}|{rats(c1)}|{self.statspec(p)}|{rows(draws, ints)}"
        if self.shift:
            return f"twosampleshift|{head}|{rat(p['shift'])}|{self.statspec(p)}|{rows(draws, ints)}"
        return f"twosample|{head}|{self.statspec(p)}|{rows(draws, ints)}"

    def table(self, p):
        """potential-outcome columns (treatment, control) as the doubles NumPy computes"""
        x, y = np.array(p["x"]), np.array(p["y"])
        if p.get("pairkind"):
            f, finv = PAIRS[p["pairkind"]]
            return list(np.concatenate([x, f(y)])), list(np.concatenate([finv(x), y]))
        d = p.get("shift", 0) if self.shift else 0
        return list(np.concatenate([x, y + d])), list(np.concatenate([x - d, y]))

    def unpack(self, p, ret):
        if p["keep"]:
            return {"p": ret[0], "obs": ret[1], "dist": list(ret[2])}
        return {"p": ret[0], "obs": ret[1], "dist": None}

    def compare(self, p, ret, seen, out):
        """problems found when comparing the implementation with the model output `out`"""
        f = fields(out)
        res = self.unpack(p, ret)
        probs = []
        reps, c = p["reps"], (1 if p["plus1"] else 0)
        margs = parse_args2(f["args"])
        exactfam = p["stat"] in ("mean", "callable")
        if p["stat"] == "callable":
            # first recorded call is the observed statistic (two_sample itself) and the second the one inside
            # two_sample_core; afterwards one call per repetition (keep_dist) or two (the code evaluates twice)
            per = 1 if p["keep"] else 2
            want_calls = 2 + per * reps
            if len(seen) != want_calls:
                probs.append(f"statistic called {len(seen)} times, expected {want_calls}")
            else:
                obs_args = (exact_list(p["x"]), exact_list(p["y"])) if not self.shift else None
                for i in range(reps):
                    for j in range(per):
                        u, v = seen[2 + per * i + j]
                        if (exact_list(u), exact_list(v)) != margs[i]:
                            probs.append(f"repetition {i}: statistic received {u.tolist()} / {v.tolist()}, model {[[float(t) for t in a] for a in margs[i]]}")
                            break
                if obs_args and (exact_list(seen[0][0]), exact_list(seen[0][1])) != obs_args:
                    probs.append("observed statistic not evaluated on (x, y) as given")
        mdist = fracs(f["dist"])
        mobs = frac(f["obs"])
        if exactfam:
            if not close(res["obs"], mobs):
                probs.append(f"observed statistic {float(res['obs'])} != {float(mobs)}")
            if res["dist"] is not None and not (len(res["dist"]) == reps and all(close(a, b) for a, b in zip(res["dist"], mdist))):
                probs.append("returned dist differs from the model's")
            mp = frac(f["p"])
            if p["stat"] == "mean":
                # differences of two rounded means: arrangements whose exact statistics tie may be ordered either
                # way by doubles (only for identical arrays is the double identical) -> bracket
                probs += bracket_check(res["p"], p["alt"], c, reps, mdist, mobs, margs,
                                       (exact_list(p["x"]), exact_list(p["y"])) if not self.shift else None)
            elif not close(res["p"], mp, rel=1e-12):
                probs.append(f"p-value {float(res['p'])} != model {mp} (hitsUp={f['up']}, hitsDn={f['dn']})")
        else:   # t: keys are sign(t)·t²; compare values numerically, counts through the tie bracket
            c0_, c1_ = self.table(p)
            tab0 = [F(v) for v in c0_]; tab1 = [F(v) for v in c1_]
            if t_degenerate(margs + [(tab0[:len(p["x"])], tab1[len(p["x"]):])]):
                obs_pair = (tab0[:len(p["x"])], tab1[len(p["x"]):])
                return probs + t_ext_compare(res, margs, obs_pair, p["alt"], c, reps,
                                             obs_same=[(list(a[0]), list(a[1])) == (list(obs_pair[0]), list(obs_pair[1])) for a in margs]) + ["DEGENERATE-T"]
            key = lambda t: (1 if t >= 0 else -1) * float(t) ** 2
            if not close(key(res["obs"]), mobs, rel=1e-7, ab=1e-9):
                probs.append(f"observed t statistic {float(res['obs'])}: sign·t² = {key(res['obs'])} != {float(mobs)}")
            if res["dist"] is not None and not all(close(key(a), b, rel=1e-7, ab=1e-9) for a, b in zip(res["dist"], mdist)):
                probs.append("returned dist (t statistics) differs from the model's")
            probs += bracket_check(res["p"], p["alt"], c, reps, mdist, mobs, margs, (exact_list(p["x"]), exact_list(p["y"])) if not self.shift else None, floor=Fr(1, 10**9))
        return probs


T_INF = Fr(10**40)      # stands for an infinite t statistic in the extended comparison below


def t_ext(u, v):
    """Student's pooled-variance t of two samples as SciPy returns it, in extended reals, re-coded as sign * t^2:
    None for NaN (a sample empty, fewer than 3 values in all, or no spread and equal means), +-T_INF for +-inf (no spread, different means)"""
    n, m = len(u), len(v)
    if n == 0 or m == 0 or n + m < 3:
        return None
    mu, mv = sum(u) / n, sum(v) / m
    ss = sum((t - mu) ** 2 for t in u) + sum((t - mv) ** 2 for t in v)
    d = mu - mv
    if ss == 0:
        return None if d == 0 else (T_INF if d > 0 else -T_INF)
    den = ss / (n + m - 2) * (Fr(1, n) + Fr(1, m))
    return (1 if d >= 0 else -1) * d * d / den


def t_ext_compare(res, pairs_sim, pair_obs, alt, c, reps, obs_same=None):
    """degenerate two-sample t statistics (infinite or NaN for some rearrangement): the returned statistic, dist and p-value against
    the extended-real evaluation — infinities are ordered and tie exactly with each other, NaN is counted in neither tail"""
    probs = []
    eo = t_ext(*pair_obs); es = [t_ext(*pr) for pr in pairs_sim]
    def match(x, e):
        x = float(x)
        if e is None:
            return x != x
        if abs(e) == T_INF:
            return x == (float("inf") if e > 0 else float("-inf"))
        return x == x and abs(x) != float("inf") and close((1 if x >= 0 else -1) * x * x, e, rel=1e-7, ab=1e-9)
    if not match(res["obs"], eo):
        probs.append(f"observed t statistic {float(res['obs'])} is not the pooled-variance t in extended reals ({'nan' if eo is None else float(eo)} as sign*t^2)")
    if res["dist"] is not None and not (len(res["dist"]) == reps and all(match(a, e) for a, e in zip(res["dist"], es))):
        probs.append("returned dist (t statistics, some infinite / NaN) differs from the extended-real evaluation")
    if eo is None:
        want = {"greater": Fr(c, reps + c), "less": Fr(c, reps + c), "two-sided": min(Fr(1), 2 * Fr(c, reps + c))}[alt]
        if not close(res["p"], want, rel=1e-12):
            probs.append(f"NaN observed statistic: p-value {float(res['p'])} != {want} (nothing is at least as extreme as NaN)")
    else:
        fin = [(e, i) for i, e in enumerate(es) if e is not None]
        probs += bracket_check(res["p"], alt, c, reps, [e for e, _ in fin], eo,
                               [("same",) if (obs_same is not None and obs_same[i]) else ("other", i) for _, i in fin], ("same",), floor=Fr(1, 10**9), exact_at=T_INF)
    return probs


def bracket_check(pval, alt, c, reps, mdist, mobs, margs=None, obs_args=None, tol=Fr(1, 10**9), floor=Fr(0), exact_at=None):
    """F2: the implementation's p-value must be consistent with the exact three-way classification of
    every simulated value against the observed one, ties (exact or within 1e-9) going either way unless
    the rearranged arrays are identical to the observed ones"""
    gt = lt = eq = eqid = 0
    floor = floor + Fr(SLACK)
    for i, v in enumerate(mdist):
        if exact_at is not None and abs(mobs) == exact_at and v == mobs:
            eq += 1; eqid += 1          # infinities tie exactly (inf == inf in doubles): must be counted in both tails
        elif exact_at is not None and (abs(v) == exact_at or abs(mobs) == exact_at):
            gt, lt = (gt + 1, lt) if v > mobs else (gt, lt + 1)
        elif abs(v - mobs) <= tol * max(abs(v), abs(mobs)) + floor:
            eq += 1
            if margs is not None and obs_args is not None and margs[i] == obs_args:
                eqid += 1
        elif v > mobs:
            gt += 1
        else:
            lt += 1
    d = reps + c
    def ok(lo, hi):
        k = numerator_of(pval, d)
        return k is not None and lo <= k <= hi
    up = (gt + eqid + c, gt + eq + c); dn = (lt + eqid + c, lt + eq + c)
    if alt == "greater":
        good = ok(*up)
    elif alt == "less":
        good = ok(*dn)
    else:
        lo = min(d, 2 * min(up[0], dn[0])); hi = min(d, 2 * min(up[1], dn[1]))
        good = ok(lo, hi)
    return [] if good else [f"p-value {float(pval)} outside the exact bracket: #>={up}, #<={dn}, denominator {d}, alternative {alt}"]


class TwoSampleShift(TwoSample):
    name = "two_sample_shift"; site = "two_sample_shift"
    shift = True


class OneSample(Fn):
    name = "one_sample"; site = "one_sample"

    def gen(self, rng):
        n = pick_n(rng, 1, 7)
        kind = rng.choice(["ints", "ties", "halves"])
        x = small_values(rng, n, kind)
        paired = rng.random() < 0.4
        y = small_values(rng, n, kind) if paired else None
        stat = rng.choice(["mean", "t", "callable", "callable"])
        z = [a - b for a, b in zip(x, y)] if paired else x
        if stat == "t" and (n < 2 or len(set(abs(v) for v in z)) < 2 or all(v == 0 for v in z)):
            stat = "mean"
        return {"x": x, "y": y, "reps": pick_reps(rng), "alt": rng.choice(ALTS), "plus1": rng.random() < 0.5,
                "keep": rng.random() < 0.5, "stat": stat, "w": weights(rng, n)}

    def call(self, p, prng):
        from permute import core
        seen = []
        w = np.array(p["w"], dtype=float)
        kind = p.get("ret", "np")
        def f(u):
            seen.append(np.array(u, dtype=float).copy())
            val = float(np.dot(w, u))
            return {"np": np.float64(val), "float": val, "int": int(val) if val.is_integer() else val}[kind]
        st = f if p["stat"] == "callable" else p["stat"]
        r = guarded(core.one_sample, arr(p, "x"), None if p["y"] is None else arr(p, "y"), reps=p["reps"], stat=st,
                    alternative=p["alt"], keep_dist=p["keep"], seed=prng, plus1=p["plus1"])
        return r, seen

    def z(self, p):
        return p["x"] if p["y"] is None else [a - b for a, b in zip(p["x"], p["y"])]

    def draws(self, p, log):
        d = Draws(log)
        out = [d.bits(len(p["x"])) for _ in range(p["reps"])]
        if not d.done():
            raise LookupError(f"{len(d.rest())} generator requests beyond the modelled ones")
        return out

    def op(self, p, draws):
        spec = {"mean": "mean", "t": "t"}.get(p["stat"], f"wsum:{ints(p['w'])}")
        return f"onesample|{p['alt']}|{int(p['plus1'])}|{rats(self.z(p))}|{spec}|{rows(draws, ints)}"

    def unpack(self, p, ret):
        return {"p": ret[0], "obs": ret[1], "dist": list(ret[2]) if p["keep"] else None}

    def compare(self, p, ret, seen, out):
        f = fields(out); res = self.unpack(p, ret); probs = []
        reps, c = p["reps"], (1 if p["plus1"] else 0)
        margs = parse_rows(f["args"])
        if p["stat"] == "callable":
            if len(seen) != 1 + reps:
                probs.append(f"statistic called {len(seen)} times, expected {1 + reps}")
            else:
                if exact_list(seen[0]) != exact_list(self.z(p)):
                    probs.append("observed statistic not evaluated on x (or x - y) as given")
                for i in range(reps):
                    if exact_list(seen[1 + i]) != margs[i]:
                        probs.append(f"repetition {i}: statistic received {seen[1 + i].tolist()}, model {[float(t) for t in margs[i]]}"); break
        mdist, mobs = fracs(f["dist"]), frac(f["obs"])
        if p["stat"] in ("mean", "callable"):
            if not close(res["obs"], mobs):
                probs.append(f"observed statistic {float(res['obs'])} != {float(mobs)}")
            if res["dist"] is not None and not (len(res["dist"]) == reps and all(close(a, b) for a, b in zip(res["dist"], mdist))):
                probs.append("returned dist differs from the model's")
            if p["stat"] == "mean":   # the mean of doubles can tie differently from the exact mean: bracket
                probs += bracket_check(res["p"], p["alt"], c, reps, mdist, mobs, [tuple(a) for a in margs], tuple(exact_list(self.z(p))))
            elif not close(res["p"], frac(f["p"]), rel=1e-12):
                probs.append(f"p-value {float(res['p'])} != model {frac(f['p'])}")
        else:
            if any(_const(a) or len(a) < 2 for a in margs + [exact_list(self.z(p))]):
                return ["SKIP-nonfinite"]
            key = lambda t: (1 if t >= 0 else -1) * float(t) ** 2
            if not close(key(res["obs"]), mobs, rel=1e-7, ab=1e-9):
                probs.append(f"observed t statistic: sign·t² = {key(res['obs'])} != {float(mobs)}")
            probs += bracket_check(res["p"], p["alt"], c, reps, mdist, mobs, [tuple(a) for a in margs], tuple(exact_list(self.z(p))), floor=Fr(1, 10**9))
        return probs


RANKLIKE = {4: [[1, 1, 4, 4]], 5: [[1, 2, 2, 5, 5], [1, 1, 4, 4, 5], [1, 3, 3, 3, 5]], 6: [[1, 2, 2, 5, 5, 6], [1, 1, 3, 4, 6, 6], [1, 1, 4, 4, 5, 6]],
            7: [[1, 2, 2, 4, 6, 6, 7], [1, 1, 3, 4, 5, 7, 7]]}


class Corr(Fn):
    name = "corr"; site = "corr"
    spearman = False

    def gen(self, rng):
        n = rng.randint(3, 7)
        if self.spearman:
            x = rng.sample(range(-20, 40), n); y = rng.sample(range(-20, 40), n)   # tie-free by construction
            if rng.random() < 0.5:      # tied values: rankdata gives mid-ranks (Model ranks = #smaller + (#equal + 1)/2)
                x0, y0 = list(x), list(y)
                for _try in range(50):
                    x = [rng.choice(x0[:max(2, n // 2)]) for _ in range(n)] if rng.random() < 0.7 else x0
                    y = [rng.choice(y0[:max(2, n // 2)]) for _ in range(n)] if rng.random() < 0.7 else y0
                    if len(set(x)) > 1 and len(set(y)) > 1:
                        break
                else:
                    x, y = x0, y0
            dv = rng.choice([1, 2]); x = [float(v) / dv for v in x]; y = [float(v) for v in y]
        else:
            while True:
                x, y = small_values(rng, n, "ints"), small_values(rng, n, rng.choice(["ints", "halves"]))
                if len(set(x)) > 1 and len(set(y)) > 1:
                    break
            if rng.random() < 0.2 and n in RANKLIKE:
                # tied integer scores that look like a ranking at a glance (whole numbers, smallest 1, largest n, sum n(n+1)/2) but are not one
                x = [float(v) for v in rng.choice(RANKLIKE[n])]; rng.shuffle(x)
                if rng.random() < 0.5:
                    y = [float(v) for v in rng.sample(range(1, n + 1), n)]
        out = {"x": x, "y": y, "reps": pick_reps(rng), "alt": rng.choice(ALTS), "plus1": rng.random() < 0.5}
        if not self.spearman and n in RANKLIKE and sorted(x) in [[float(v) for v in t] for t in RANKLIKE[n]]:
            out["noscale"] = True
        return out

    def call(self, p, prng):
        from permute import core
        fn = core.spearman_corr if self.spearman else core.corr
        r = guarded(fn, arr(p, "x"), arr(p, "y"), alternative=p["alt"], reps=p["reps"], seed=prng, plus1=p["plus1"])
        return r, []

    def draws(self, p, log):
        d = Draws(log)
        out = [d.fy(len(p["x"])) for _ in range(p["reps"])]
        if not d.done():
            raise LookupError(f"{len(d.rest())} generator requests beyond the modelled ones")
        return out

    def op(self, p, draws):
        if self.spearman:
            return f"spearman|{p['alt']}|{int(p['plus1'])}|{rats(p['x'])}|{rats(p['y'])}|{rows(draws, ints)}"
        return f"corr|{p['alt']}|{int(p['plus1'])}|{rats(p['x'])}|{rats(p['y'])}|pearson|{rows(draws, ints)}"

    def unpack(self, p, ret):
        return {"obs": ret[0], "p": ret[1], "dist": list(ret[2])}

    def compare(self, p, ret, seen, out):
        f = fields(out); res = self.unpack(p, ret); probs = []
        reps, c = p["reps"], (1 if p["plus1"] else 0)
        mdist, mobs = fracs(f["dist"]), frac(f["obs"])
        margs = [tuple(a) for a in parse_rows(f["args"])]
        key = lambda t: (1 if t >= 0 else -1) * float(t) ** 2
        if not close(key(res["obs"]), mobs, rel=1e-7, ab=1e-9):
            probs.append(f"observed correlation {float(res['obs'])}: sign·r² = {key(res['obs'])} != {float(mobs)}")
        if len(res["dist"]) != reps or not all(close(key(a), b, rel=1e-7, ab=1e-9) for a, b in zip(res["dist"], mdist)):
            probs.append("returned simulated correlations differ from the model's")
        obs_x = tuple(exact_list(p["x"])) if not self.spearman else None
        probs += bracket_check(res["p"], p["alt"], c, reps, mdist, mobs, margs if obs_x else None, obs_x, floor=Fr(1, 10**9))
        return probs


class Spearman(Corr):
    name = "spearman_corr"; site = "spearman_corr"
    spearman = True


class KSample(Fn):
    name = "k_sample"; site = "k_sample"

    def gen(self, rng):
        n = pick_n(rng, 2, 8, 20)
        k = rng.randint(2, min(4, n))
        group = [i % k for i in range(n)]; rng.shuffle(group)
        labels = rng.choice([[0, 1, 2, 3], [5, 2, 9, 7], [1, 2, 3, 4]])
        group = [labels[g] for g in group]
        x = small_values(rng, n)
        return {"x": x, "group": group, "reps": pick_reps(rng), "plus1": rng.random() < 0.5, "keep": rng.random() < 0.5,
                "stat": rng.choice(["anova", "callable", "callable"])}

    def call(self, p, prng):
        from permute import ksample
        seen = []
        kind = p.get("ret", "np")
        def f(x, g, xbar):
            seen.append((np.array(x, dtype=float).copy(), np.array(dec(p, g)), float(xbar)))
            val = float(np.dot(x, dec(p, g)))
            return {"np": np.float64(val), "float": val, "int": int(val) if val.is_integer() else val}[kind]
        st = f if p["stat"] == "callable" else "one-way anova"
        r = guarded(ksample.k_sample, arr(p, "x"), enc(p, "group"), reps=p["reps"], stat=st, keep_dist=p["keep"],
                    seed=prng, plus1=p["plus1"])
        return r, seen

    def draws(self, p, log):
        d = Draws(log)
        out = [d.fy(len(p["x"])) for _ in range(p["reps"])]
        if not d.done():
            raise LookupError(f"{len(d.rest())} generator requests beyond the modelled ones")
        return out

    def op(self, p, draws):
        return f"ksample|{int(p['plus1'])}|{rats(p['x'])}|{ints(p['group'])}|{'gdot' if p['stat'] == 'callable' else 'anova'}|{rows(draws, ints)}"

    def unpack(self, p, ret):
        return {"p": ret[0], "obs": ret[1], "dist": list(ret[2]) if p["keep"] else None}

    def compare(self, p, ret, seen, out):
        f = fields(out); res = self.unpack(p, ret); probs = []
        reps, c = p["reps"], (1 if p["plus1"] else 0)
        margs = parse_rows(f["args"], int)
        mdist, mobs = fracs(f["dist"]), frac(f["obs"])
        if p["stat"] == "callable":
            if len(seen) != 1 + reps:
                probs.append(f"statistic called {len(seen)} times, expected {1 + reps}")
            else:
                xb = sum(F(v) for v in p["x"]) / len(p["x"])
                for i in range(reps):
                    x_, g_, xbar = seen[1 + i]
                    if [int(v) for v in g_] != margs[i] or exact_list(x_) != exact_list(p["x"]) or not close(xbar, xb):
                        probs.append(f"repetition {i}: statistic received labels {g_.tolist()}, model {margs[i]}"); break
                if [int(v) for v in seen[0][1]] != p["group"]:
                    probs.append("observed statistic not evaluated on the labels as given")
        if not close(res["obs"], mobs):
            probs.append(f"observed statistic {float(res['obs'])} != {float(mobs)}")
        if res["dist"] is not None and not (len(res["dist"]) == reps and all(close(a, b) for a, b in zip(res["dist"], mdist))):
            probs.append("returned dist differs from the model's")
        if p["stat"] == "callable":
            if not close(res["p"], frac(f["p"]), rel=1e-12):
                probs.append(f"p-value {float(res['p'])} != model {frac(f['p'])}")
        else:
            probs += bracket_check(res["p"], "greater", c, reps, mdist, mobs, [tuple(a) for a in margs], tuple(p["group"]))
        return probs


class Bivariate(Fn):
    name = "bivariate_k_sample"; site = "bivariate_k_sample"

    def gen(self, rng):
        n = rng.randint(3, 8)
        blocks = rng.choice([[0, 1, 2], [0, 1, 2], [3, 4, 5], [5, 7, 9], [2, 3, 4]])      # block labels need not be treatment labels
        g1 = [rng.choice(blocks) for _ in range(n)]
        g2 = [rng.randint(0, 2) for _ in range(n)]
        if len(set(g2)) < 2:
            g2[0] = 0; g2[1] = 1
        x = small_values(rng, n, rng.choice(["ints", "wide", "halves"]))
        if len(set(x)) < 2:
            x[0] += 1
        return {"x": x, "g1": g1, "g2": g2, "reps": pick_reps(rng, 10), "plus1": rng.random() < 0.5, "keep": rng.random() < 0.5,
                "stat": rng.choice(["twoway", "callable", "callable"])}

    def call(self, p, prng):
        from permute import ksample
        seen = []
        def f(x, g1, g2, xbar):
            seen.append((np.array(x, dtype=float).copy(), np.array(dec(p, g1)), np.array(dec(p, g2)), float(xbar)))
            return np.float64(np.dot(x, dec(p, g2)))
        st = f if p["stat"] == "callable" else "two-way anova"
        r = guarded(ksample.bivariate_k_sample, arr(p, "x"), enc(p, "g1"), enc(p, "g2"), reps=p["reps"], stat=st,
                    keep_dist=p["keep"], seed=prng, plus1=p["plus1"])
        return r, seen

    def draws(self, p, log):
        d = Draws(log)
        sizes = [p["g1"].count(g) for g in sorted(set(p["g1"]))]
        out = [[d.fy(s) for s in sizes] for _ in range(p["reps"])]
        if not d.done():
            raise LookupError(f"{len(d.rest())} generator requests beyond the modelled ones")
        return out

    def op(self, p, draws):
        return f"bivariate|{int(p['plus1'])}|{rats(p['x'])}|{ints(p['g1'])}|{ints(p['g2'])}|{'gdot' if p['stat'] == 'callable' else 'twoway'}|{rows3(draws)}"

    def unpack(self, p, ret):
        return {"p": ret[0], "obs": ret[1], "dist": list(ret[2]) if p["keep"] else None}

    def compare(self, p, ret, seen, out):
        f = fields(out); res = self.unpack(p, ret); probs = []
        reps, c = p["reps"], (1 if p["plus1"] else 0)
        margs = parse_rows(f["args"], int)
        mdist, mobs = fracs(f["dist"]), frac(f["obs"])
        if p["stat"] == "callable":
            if len(seen) != 1 + reps:
                probs.append(f"statistic called {len(seen)} times, expected {1 + reps}")
            else:
                for i in range(reps):
                    if [int(v) for v in seen[1 + i][2]] != margs[i] or [int(v) for v in seen[1 + i][1]] != p["g1"]:
                        probs.append(f"repetition {i}: statistic received group2 {seen[1 + i][2].tolist()}, model {margs[i]}"); break
        try:
            finite = np.isfinite(float(res["obs"])) and (res["dist"] is None or np.isfinite(np.array(res["dist"], dtype=float)).all())
        except Exception:
            finite = False
        if not finite:
            return probs + ["SKIP-nonfinite"]
        if p["stat"] == "twoway":
            # SSB/(SST-SSB) is undefined when the denominator vanishes exactly (doubles then return rounding noise)
            xs = [F(v) for v in p["x"]]; mu = sum(xs) / len(xs); sst = sum((v - mu) ** 2 for v in xs)
            def den(g2):
                ss2 = Fr(0)
                for k in set(g2):
                    xx = [v for v, gg in zip(xs, g2) if gg == k]; ss2 += (sum(xx) / len(xx) - mu) ** 2
                return sst - ss2
            if any(den(g2) == 0 for g2 in margs + [p["g2"]]):
                return ["SKIP-nonfinite"]
        if not close(res["obs"], mobs, rel=1e-7):
            probs.append(f"observed statistic {float(res['obs'])} != {float(mobs)}")
        if res["dist"] is not None and not (len(res["dist"]) == reps and all(close(a, b, rel=1e-7) for a, b in zip(res["dist"], mdist))):
            probs.append("returned dist differs from the model's")
        if p["stat"] == "callable":
            if not close(res["p"], frac(f["p"]), rel=1e-12):
                probs.append(f"p-value {float(res['p'])} != model {frac(f['p'])}")
        else:
            probs += bracket_check(res["p"], "greater", c, reps, mdist, mobs, [tuple(a) for a in margs], tuple(p["g2"]))
        return probs


def strat_design(rng):
    """group / condition vectors with unequal and singleton strata and unbalanced conditions"""
    ng = rng.randint(1, 3) if rng.random() < 0.2 else rng.randint(2, 3)
    sizes = [rng.choice([1, 2, 2, 3, 4]) for _ in range(ng)]
    if rng.random() < 0.02:
        sizes[rng.randrange(ng)] = rng.choice([17, 32, 33, 65])   # one long stratum
    if sum(sizes) < 3:
        sizes[0] += 2
    group, cond = [], []
    labels = rng.sample([1, 2, 3, 5, 8], ng)
    for g, s in zip(labels, sizes):
        for i in range(s):
            group.append(g); cond.append(rng.randint(0, 1))
    if len(set(cond)) < 2:
        cond[0] = 0; cond[-1] = 1
    idx = list(range(len(group))); rng.shuffle(idx)
    return [group[i] for i in idx], [cond[i] for i in idx]


class StratPerm(Fn):
    name = "stratified_permutationtest"; site = "stratified_permutationtest"

    def gen(self, rng):
        group, cond = strat_design(rng)
        n = len(group)
        stat = rng.choice(["mean", "callable", "callable"])
        if stat == "mean":
            # every (group, condition) cell non-empty under every within-group rearrangement: two units of each
            # condition per group is not guaranteed, so use the callable unless each group has both conditions fixed
            ok = len(set(group)) >= 2 and all(set(c for g2, c in zip(group, cond) if g2 == g) == {0, 1} for g in set(group))
            if not ok:
                stat = "callable"
        if rng.random() < 0.25:
            # three conditions, every group holding all of them in (mostly) unequal numbers: the documented statistic is then the sum over
            # groups of the standard deviation of the condition means (about the mean of those means, whatever the cell sizes)
            group, cond = [], []
            for g in rng.sample([1, 2, 4, 7], rng.randint(2, 3)):
                for c, k in zip((0, 1, 2), rng.choice([(1, 1, 2), (1, 2, 2), (2, 1, 3), (1, 1, 1), (3, 1, 1), (1, 2, 1)])):
                    group += [g] * k; cond += [c] * k
            o = list(range(len(group))); rng.shuffle(o)
            group = [group[i] for i in o]; cond = [cond[i] for i in o]; n = len(group); stat = "mean3"
        return {"group": group, "cond": cond, "resp": small_values(rng, n), "reps": pick_reps(rng, 10), "alt": rng.choice(ALTS),
                "plus1": rng.random() < 0.5, "stat": stat, "w": weights(rng, n)}

    def call(self, p, prng):
        from permute import stratified
        seen = []
        w = np.array(p["resp"], dtype=float)
        def f(u):
            seen.append(np.array(dec(p, u)))
            return np.float64(np.dot(w, dec(p, u)))
        st = f if p["stat"] == "callable" else "mean"
        r = guarded(stratified.stratified_permutationtest, enc(p, "group"), enc(p, "cond"), arr(p, "resp"),
                    alternative=p["alt"], reps=p["reps"], testStatistic=st, seed=prng, plus1=p["plus1"])
        return r, seen

    def draws(self, p, log):
        d = Draws(log)
        sizes = [p["group"].count(g) for g in sorted(set(p["group"]))]
        out = [[d.fy(s) for s in sizes] for _ in range(p["reps"])]
        if not d.done():
            raise LookupError(f"{len(d.rest())} generator requests beyond the modelled ones")
        return out

    def op(self, p, draws):
        return (f"stratperm|{p['alt']}|{int(p['plus1'])}|{ints(p['group'])}|{ints(p['cond'])}|{rats(p['resp'])}|"
                f"{'mean2' if p['stat'] == 'mean' else 'cdot'}|{rows3(draws)}")

    def unpack(self, p, ret):
        return {"p": ret[0], "obs": ret[1], "dist": list(ret[2])}

    def compare(self, p, ret, seen, out):
        f = fields(out); res = self.unpack(p, ret); probs = []
        reps = p["reps"]
        margs = parse_rows(f["args"], int)
        mdist, mobs = fracs(f["dist"]), frac(f["obs"])
        if p["stat"] == "callable":
            if len(seen) != 1 + reps:
                probs.append(f"statistic called {len(seen)} times, expected {1 + reps}")
            else:
                if [int(v) for v in seen[0]] != p["cond"]:
                    probs.append("observed statistic not evaluated on the condition labels as given")
                for i in range(reps):
                    if [int(v) for v in seen[1 + i]] != margs[i]:
                        probs.append(f"repetition {i}: statistic received {seen[1 + i].tolist()}, model {margs[i]}"); break
        if p["stat"] == "mean3":
            # not a rational statistic: the model supplies the rearranged condition labels, the documented statistic is evaluated in doubles
            g_ = np.array(p["group"]); r_ = np.array(p["resp"], dtype=float)
            def stat3(cv):
                cv = np.array(cv)
                return float(sum(np.std([r_[(g_ == g) & (cv == c)].mean() for c in (0, 1, 2)]) for g in sorted(set(p["group"]))))
            if abs(float(res["obs"]) - stat3(p["cond"])) > 1e-9 * max(1.0, abs(stat3(p["cond"]))):
                probs.append(f"observed statistic {float(res['obs'])} is not the sum over groups of the standard deviation of the condition means ({stat3(p['cond'])})")
            if len(res["dist"]) != reps or any(abs(float(a) - stat3(cv)) > 1e-9 * max(1.0, abs(stat3(cv))) for a, cv in zip(res["dist"], margs)):
                probs.append("simulated statistics are not the documented statistic on the model's within-group rearrangements of the conditions")
            return probs
        if not close(res["obs"], mobs):
            probs.append(f"observed statistic {float(res['obs'])} != {float(mobs)}")
        if not (len(res["dist"]) == reps and all(close(a, b) for a, b in zip(res["dist"], mdist))):
            probs.append("returned dist differs from the model's")
        if p["stat"] == "callable" and not close(res["p"], frac(f["p"]), rel=1e-12, ab=1e-12):
            probs.append(f"p-value {float(res['p'])} != model {frac(f['p'])} (model follows the code's upper-count formula)")
        return probs


class SimCorr(Fn):
    name = "sim_corr"; site = "sim_corr"

    def gen(self, rng):
        ng = rng.randint(1, 3)
        group = []
        for g in rng.sample([1, 2, 4, 7], ng):
            group += [g] * rng.choice([2, 2, 3, 4])      # two observations: that stratum's correlation is +1 or -1
        rng.shuffle(group)
        n = len(group)
        while True:
            x = [float(v) for v in rng.sample(range(-9, 30), n)]
            y = [float(v) for v in rng.sample(range(-9, 30), n)]
            break
        return {"x": x, "y": y, "group": group, "reps": pick_reps(rng, 10), "alt": rng.choice(ALTS), "plus1": rng.random() < 0.5}

    def call(self, p, prng):
        from permute import stratified
        r = guarded(stratified.sim_corr, arr(p, "x"), arr(p, "y"), enc(p, "group"), reps=p["reps"],
                    alternative=p["alt"], seed=prng, plus1=p["plus1"])
        return r, []

    def draws(self, p, log):
        d = Draws(log)
        sizes = [p["group"].count(g) for g in sorted(set(p["group"]))]
        out = [[d.fy(s) for s in sizes] for _ in range(p["reps"])]
        if not d.done():
            raise LookupError(f"{len(d.rest())} generator requests beyond the modelled ones")
        return out

    def op(self, p, draws):
        return f"simcorr|{p['alt']}|{int(p['plus1'])}|{rats(p['x'])}|{rats(p['y'])}|{ints(p['group'])}|{rows3(draws)}"

    def unpack(self, p, ret):
        return {"p": ret[0], "obs": ret[1], "dist": list(ret[2])}

    def compare(self, p, ret, seen, out):
        """the statistic (a sum of correlation coefficients) is not rational: the model supplies the
        rearranged x of every repetition, the harness recomputes the documented statistic in doubles"""
        f = fields(out); res = self.unpack(p, ret); probs = []
        margs = parse_rows(f["args"])
        y = np.array(p["y"]); g = np.array(p["group"])
        def stat(xv):
            return sum(np.corrcoef(np.array(xv, dtype=float)[g == k], y[g == k])[0, 1] for k in sorted(set(p["group"])))
        if abs(res["obs"] - stat(p["x"])) > 1e-9:
            probs.append("observed statistic is not the sum over groups of Pearson correlations")
        if len(res["dist"]) != p["reps"] or any(abs(a - stat([float(t) for t in xv])) > 1e-9 for a, xv in zip(res["dist"], margs)):
            probs.append("simulated statistics are not those of the model's within-group rearrangements of x")
        return probs


class StratTwoSample(Fn):
    name = "stratified_two_sample"; site = "stratified_two_sample"

    def gen(self, rng):
        group, cond = strat_design(rng)
        n = len(group)
        stat = rng.choice(["mean", "t", "callable", "callable", "mean_within_strata"])
        resp = small_values(rng, n)
        if stat == "t" and (cond.count(0) < 2 or cond.count(1) < 2 or len(set(resp)) < 3) and rng.random() < 0.6:
            stat = "mean"          # (otherwise: binary / constant responses, separated groups — infinite or NaN t statistics, compared in extended reals)
        elif stat == "t" and rng.random() < 0.4:
            resp = [float(c_) for c_ in cond] if rng.random() < 0.5 else small_values(rng, n, "binary")     # perfectly separated / binary data
        if stat == "mean_within_strata":
            ok = len(set(group)) >= 2 and all(set(c for g2, c in zip(group, cond) if g2 == g) == {0, 1} for g in set(group))
            if not ok:
                stat = "callable"
        return {"group": group, "cond": cond, "resp": resp, "reps": pick_reps(rng, 10), "alt": rng.choice(ALTS),
                "plus1": rng.random() < 0.5, "keep": rng.random() < 0.5, "stat": stat, "w": weights(rng, n)}

    def ordering(self, p):
        return [int(i) for i in np.array(p["cond"]).argsort()]

    def call(self, p, prng):
        from permute import stratified
        seen = []
        w = np.array(p["w"], dtype=float)
        kind = p.get("ret", "np")
        def f(u):
            seen.append(np.array(u, dtype=float).copy())
            val = float(np.dot(w, u))
            return {"np": np.float64(val), "float": val, "int": int(val) if val.is_integer() else val}[kind]
        st = f if p["stat"] == "callable" else p["stat"]
        r = guarded(stratified.stratified_two_sample, enc(p, "group"), POOL.get("cond", p["cond"]), arr(p, "resp"), stat=st,
                    alternative=p["alt"], reps=p["reps"], keep_dist=p["keep"], seed=prng, plus1=p["plus1"])
        return r, seen

    def draws(self, p, log):
        d = Draws(log)
        sizes = [p["group"].count(g) for g in sorted(set(p["group"]))]
        out = [[d.fy(s) for s in sizes] for _ in range(p["reps"])]
        if not d.done():
            raise LookupError(f"{len(d.rest())} generator requests beyond the modelled ones")
        return out

    def op(self, p, draws):
        o = self.ordering(p)
        g = [p["group"][i] for i in o]; r = [p["resp"][i] for i in o]
        nt = sum(1 for c in p["cond"] if c == p["cond"][o[0]])
        spec = {"mean": "mean", "t": "t"}.get(p["stat"], f"wsum:{ints(p['w'])}")
        if p["stat"] == "mean_within_strata":
            spec = "mean"    # placeholder: the statistic values are checked by the harness, see compare
        return f"strat2|{p['alt']}|{int(p['plus1'])}|{ints(g)}|{rats(r)}|{nt}|{spec}|{rows3(draws)}"

    def unpack(self, p, ret):
        return {"p": ret[0], "obs": ret[1], "dist": list(ret[2]) if p["keep"] else None}

    def compare(self, p, ret, seen, out):
        f = fields(out); res = self.unpack(p, ret); probs = []
        reps, c = p["reps"], (1 if p["plus1"] else 0)
        margs = parse_rows(f["args"])
        o = self.ordering(p)
        if p["stat"] == "callable":
            if len(seen) != 1 + reps:
                probs.append(f"statistic called {len(seen)} times, expected {1 + reps}")
            else:
                if exact_list(seen[0]) != exact_list([p["resp"][i] for i in o]):
                    probs.append("observed statistic not evaluated on the responses sorted by condition")
                for i in range(reps):
                    if exact_list(seen[1 + i]) != margs[i]:
                        probs.append(f"repetition {i}: statistic received {seen[1 + i].tolist()}, model {[float(t) for t in margs[i]]}"); break
        if p["stat"] == "mean_within_strata":
            # documented statistic recomputed exactly on the model's rearrangements
            g = [p["group"][i] for i in o]; cd = [p["cond"][i] for i in o]
            def sm(resp):
                t = Fr(0)
                for k in sorted(set(g)):
                    ms = []
                    for cc in sorted(set(cd)):
                        v = [Fr(r_) for r_, gg, c2 in zip(resp, g, cd) if gg == k and c2 == cc]
                        ms.append(sum(v) / len(v))
                    t += abs(ms[0] - ms[1])
                return t
            mdist = [sm(a) for a in margs]; mobs = sm([F(p["resp"][i]) for i in o])
        else:
            mdist, mobs = fracs(f["dist"]), frac(f["obs"])
        obs_args = tuple(exact_list([p["resp"][i] for i in o]))
        if p["stat"] == "t":
            nt = sum(1 for c2 in p["cond"] if c2 == p["cond"][o[0]])
            if t_degenerate([(a[:nt], a[nt:]) for a in margs + [list(obs_args)]]):
                return probs + t_ext_compare(res, [(a[:nt], a[nt:]) for a in margs], (list(obs_args)[:nt], list(obs_args)[nt:]), p["alt"], c, reps,
                                             obs_same=[tuple(a) == tuple(obs_args) for a in margs]) + ["DEGENERATE-T"]
            key = lambda t: (1 if t >= 0 else -1) * float(t) ** 2
            if not close(key(res["obs"]), mobs, rel=1e-7, ab=1e-9):
                probs.append(f"observed t statistic: sign·t² = {key(res['obs'])} != {float(mobs)}")
            if res["dist"] is not None and not all(close(key(a), b, rel=1e-7, ab=1e-9) for a, b in zip(res["dist"], mdist)):
                probs.append("returned dist (t statistics) differs from the model's")
        else:
            if not close(res["obs"], mobs):
                probs.append(f"observed statistic {float(res['obs'])} != {float(mobs)}")
            if res["dist"] is not None and not (len(res["dist"]) == reps and all(close(a, b) for a, b in zip(res["dist"], mdist))):
                probs.append("returned dist differs from the model's")
        if p["stat"] == "callable":
            if not close(res["p"], frac(f["p"]), rel=1e-12):
                probs.append(f"p-value {float(res['p'])} != model {frac(f['p'])}")
        else:
            probs += bracket_check(res["p"], p["alt"], c, reps, mdist, mobs, [tuple(a) for a in margs], obs_args,
                                   floor=(Fr(1, 10**9) if p["stat"] == "t" else Fr(0)))
        return probs


FUNCS = {f.name: f for f in [TwoSample(), TwoSampleShift(), OneSample(), Corr(), Spearman(), KSample(), Bivariate(),
                             StratPerm(), SimCorr(), StratTwoSample()]}
LIST_OK = ("two_sample", "one_sample", "corr", "spearman_corr")     # accept plain lists / tuples on the unchanged tree
UNSTRAT = ["two_sample", "two_sample_shift", "one_sample", "corr", "spearman_corr", "k_sample"]
STRAT = ["stratified_permutationtest", "stratified_two_sample", "sim_corr", "bivariate_k_sample"]


def reuse_sequence(fn, rng, length=5):
    """parameter sets of identical shapes, dtypes and label sets but different contents: with the buffer pool
    the implementation sees the very same ndarray objects refilled in place between calls"""
    base = fn.gen(rng)
    base["ret"] = "np"; base["intdtype"] = False; base["lab"] = rng.choice(LABEL_KINDS); base["scale"] = 1.0
    out = []
    for _ in range(length):
        q = dict(base)
        n = None
        for keys in (("group", "cond"), ("g1", "g2")):
            if keys[0] in q:
                n = len(q[keys[0]])
                perm = list(range(n)); rng.shuffle(perm)
                for k in keys:
                    if k in q:
                        q[k] = [q[k][i] for i in perm]
        for k in ("x", "y", "resp"):
            if q.get(k) is not None:
                v = list(q[k]); rng.shuffle(v); q[k] = v
        q["fixed"] = True
        out.append(q)
    return out


def run_recorded(ctx, names, per_fn, site_prefix="", presets=None):
    """recorded-draw correspondence for the named functions; returns (ops, meta) pending model run"""
    ops, meta = [], []
    for name in names:
        fn = FUNCS[name]
        plist = (presets or {}).get(name)
        for j in range(per_fn if plist is None else len(plist)):
            p = fn.gen(ctx.rng) if plist is None else plist[j]
            if p.get("fixed"):
                pass
            elif name not in ("spearman_corr",):
                apply_scale(p, ctx.rng)
            if not p.get("fixed"):
                p["ret"] = ctx.rng.choice(["np", "np", "float", "int"])
                p["intdtype"] = ctx.rng.random() < 0.25
                p["lab"] = ctx.rng.choice(LABEL_KINDS)
                apply_offset(p, ctx.rng, name)
                if p.get("offset"):
                    ctx.count("data-on-a-large-baseline")
                if name in LIST_OK and ctx.rng.random() < 0.08:
                    p["container"] = "list"; ctx.count("python-sequence-inputs")
                elif ctx.rng.random() < 0.08:
                    p["readonly"] = True; ctx.count("read-only-input-arrays")
                elif name == "one_sample" and p.get("y") is None and ctx.rng.random() < 0.25 and all(float(t).is_integer() and 0 <= t < 250 for t in p["x"]):
                    p["uintdtype"] = True; ctx.count("unsigned-byte-data")
            g, gkind, gseed = mk_generator(ctx.rng)
            # scalar options as they come out of NumPy computations / configuration files: np.int64 repetitions, np.bool_ / 0-1 flags
            pc = p
            if ctx.rng.random() < 0.2:
                pc = dict(p)
                pc["reps"] = ctx.rng.choice([np.int64, np.int32, np.uint16])(p["reps"]) if p["reps"] < 60000 else p["reps"]
                if "plus1" in p:
                    pc["plus1"] = ctx.rng.choice([np.bool_(p["plus1"]), int(p["plus1"]), p["plus1"]])
                if "keep" in p:
                    pc["keep"] = ctx.rng.choice([np.bool_(p["keep"]), int(p["keep"]), p["keep"]])
                ctx.count("scalar-options-as-numpy-or-int")
            r, seen = fn.call(pc, g)
            det = {"call": name, "params": p, "generator": gkind, "seed": gseed}
            if pc is not p:
                det["option_types"] = {k: type(pc[k]).__name__ for k in ("reps", "plus1", "keep") if k in pc}
            ctx.case((name, repr(sorted(p.items(), key=lambda kv: kv[0]))), True, det)
            ctx.count(name); ctx.count("gen-" + gkind)
            if "stat" in p:
                ctx.count(f"{name}:stat={p['stat']}")
            if r[0] != "ok":
                det.update({"issue": "call failed", "returned": r[1:]}); ctx.violation("oracle", det, site=fn.site); continue
            try:
                draws = fn.draws(p, g.log)
            except LookupError as ex:
                det.update({"issue": "generator used differently from the model: " + str(ex)})
                ctx.violation("correspondence", det, site=fn.site, no_input=True); continue
            ops.append(fn.op(p, draws)); meta.append((fn, p, r[1], seen, det))
            if gkind == "sha" and ctx.rng.random() < 0.3:
                # the plain integer (or NumPy integer) seed must give exactly what the generator object SHA256(seed) gave
                r_int, _ = fn.call(p, gseed if ctx.rng.random() < 0.7 else np.int64(gseed))
                ctx.count("int-seed-vs-generator-object")
                if r_int[0] != "ok" or not _same_result(r_int[1], r[1]):
                    d2 = dict(det); d2.update({"issue": "the integer seed gives another result than a fresh SHA256 generator with that seed (the model replays the latter)",
                                               "int_seed": str(r_int)[:300], "generator_object": str(r)[:300]})
                    ctx.violation("oracle", d2, site=fn.site)
    return ops, meta


def _same_result(a, b):
    if isinstance(a, (tuple, list)) and isinstance(b, (tuple, list)):
        return len(a) == len(b) and all(_same_result(x, y) for x, y in zip(a, b))
    if a is None or b is None:
        return a is b
    try:
        return bool(np.array_equal(np.asarray(a, dtype=float), np.asarray(b, dtype=float), equal_nan=True))
    except (TypeError, ValueError):
        return bool(np.array_equal(np.asarray(a, dtype=object), np.asarray(b, dtype=object)))


def compare_recorded(ctx, ops, meta, outs, block):
    global SLACK
    agree = True
    for o, (fn, p, ret, seen, det) in zip(outs, meta):
        if o.startswith("bad-op"):
            raise RuntimeError("driver rejected: " + o + " for " + str(det)[:300])
        SLACK = float(p.get("slack", 0.0))
        try:
            probs = fn.compare(p, ret, seen, o)
        finally:
            SLACK = 0.0
        if "SKIP-nonfinite" in probs:
            ctx.count("skipped-nonfinite-statistic"); continue
        if "DEGENERATE-T" in probs:
            ctx.count("degenerate-t-in-extended-reals"); probs = [q for q in probs if q != "DEGENERATE-T"]
        if probs:
            agree = False
            d2 = dict(det); d2.update({"issue": probs[0], "all_issues": probs[:5], "model": o[:600], "returned": str(ret)[:400]})
            ctx.violation("correspondence", d2, site=fn.site, no_input=True)
    ctx.block(block, agree, len(ops))


def nan_strat_block(ctx, ncases, block="stratified_two_sample-NaN-model-vs-impl"):
    """stratified_two_sample(stat='mean') on responses with NaN-coded non-responders (np.nanmean): the recorded draws are
    replayed through Model/Nan.lean; statistics that are NaN (an arm without responders) must be counted in neither tail"""
    fn = FUNCS["stratified_two_sample"]
    nan = float("nan")
    ops, meta = [], []
    for _ in range(ncases):
        group, cond = strat_design(ctx.rng); n = len(group)
        resp = small_values(ctx.rng, n)
        for i in ctx.rng.sample(range(n), ctx.rng.randint(1, max(1, (n + 1) // 2))):
            resp[i] = nan
        p = {"group": group, "cond": cond, "resp": resp, "reps": pick_reps(ctx.rng, 10), "alt": ctx.rng.choice(ALTS),
             "plus1": ctx.rng.random() < 0.5, "keep": ctx.rng.random() < 0.6, "stat": ctx.rng.choice(["mean", "mean", "t"]), "w": [0] * n,
             "lab": ctx.rng.choice(LABEL_KINDS), "intdtype": False, "ret": "np"}
        g, gkind, gseed = mk_generator(ctx.rng)
        with np.errstate(all="ignore"):
            import warnings
            with warnings.catch_warnings():
                warnings.simplefilter("ignore")
                r, seen = fn.call(p, g)
        det = {"call": "stratified_two_sample", "params": {k: (["nan" if isinstance(t, float) and t != t else t for t in v] if k == "resp" else v) for k, v in p.items()},
               "generator": gkind, "seed": gseed}
        ctx.case(("nan", repr(sorted(det["params"].items()))), True, det); ctx.count("stratified_two_sample:NaN-responses:" + p["stat"]); ctx.count("gen-" + gkind)
        if r[0] != "ok":
            det.update({"issue": "call failed", "returned": r[1:]}); ctx.violation("oracle", det, site=fn.site); continue
        try:
            draws = fn.draws(p, g.log)
        except LookupError as ex:
            det.update({"issue": "generator used differently from the model: " + str(ex)})
            ctx.violation("correspondence", det, site=fn.site, no_input=True); continue
        o = fn.ordering(p)
        gs = [p["group"][i] for i in o]; rs = [p["resp"][i] for i in o]
        nt = sum(1 for c in p["cond"] if c == p["cond"][o[0]])
        ops.append(f"strat2nan|{p['alt']}|{int(p['plus1'])}|{ints(gs)}|{' '.join('nan' if t != t else rat(t) for t in rs)}|{nt}|{p['stat']}|{rows3(draws)}")
        meta.append((p, r[1], det, tuple(None if t != t else F(t) for t in rs), nt))
    outs = run_model(ops)
    agree = True
    for out, (p, ret, det, obs_args, nt) in zip(outs, meta):
        if out.startswith("bad-op"):
            raise RuntimeError("driver rejected: " + out)
        f = fields(out); probs = []
        reps, c = p["reps"], (1 if p["plus1"] else 0)
        opt = lambda t: None if t == "nan" else frac(t)
        mobs = opt(f["obs"]); mdist = [opt(t) for t in f["dist"].split()]
        margs = [tuple(opt(t) for t in row.split()) for row in f["args"].split(";")] if f["args"].strip() else []
        pval, obs = float(ret[0]), float(ret[1]); dist = list(ret[2]) if p["keep"] else None
        is_t = p["stat"] == "t"
        if is_t:
            # arrangements whose two responder sets give a non-finite t (fewer than 3 responders in all, or no spread) are outside the domain
            arms = [([v for v in a[:nt] if v is not None], [v for v in a[nt:] if v is not None]) for a in margs + [obs_args]]
            if any(len(u) and len(v) and ((_const(u) and _const(v)) or len(u) + len(v) < 3) for u, v in arms):
                ctx.count("skipped-nonfinite-statistic"); continue
            key = lambda t: t if t != t else (1 if t >= 0 else -1) * float(t) ** 2      # the model reports sign * t^2
            obs = key(obs); dist = [key(t) for t in dist] if dist is not None else None
        if (mobs is None) != (obs != obs):
            probs.append(f"observed statistic {obs}, model {f['obs']}")
        elif mobs is not None and not close(obs, mobs, rel=(1e-7 if is_t else 1e-9), ab=(1e-9 if is_t else 1e-12)):
            probs.append(f"observed statistic {obs} != {float(mobs)}")
        if dist is not None:
            if len(dist) != reps or any(((b is None) != (a != a)) or (b is not None and not close(a, b, rel=(1e-7 if is_t else 1e-9), ab=(1e-9 if is_t else 1e-12))) for a, b in zip(dist, mdist)):
                probs.append("returned dist differs from the model's (values or NaN positions)")
        if mobs is None:
            if not close(pval, frac(f["p"]), rel=1e-12):
                probs.append(f"NaN observed statistic: p-value {pval} != {frac(f['p'])} (nothing can be at least as extreme as NaN)")
        else:
            fin = [(v, a) for v, a in zip(mdist, margs) if v is not None]
            probs += bracket_check(pval, p["alt"], c, reps, [v for v, _ in fin], mobs, [a for _, a in fin], obs_args, floor=(Fr(1, 10**9) if is_t else Fr(0)))
        if probs:
            agree = False
            # a disagreement on these data is a failing input for the tail-count definition (hits over the non-NaN statistics)
            det.update({"issue": probs[0], "all_issues": probs[:5], "model": out[:600], "returned": str(ret)[:400]})
            ctx.violation("oracle", det, site=fn.site)
    ctx.block(block, agree, len(ops))
