"""Shared machinery of the correspondence harness.

* exact encoding of numbers for the line protocol (every finite double is a dyadic rational)
* the Lean driver runner (native `lean_exe`, falling back to `lake env lean --run`)
* guarded calls into /repo (every call runs under an alarm; a hang is a result, not a stall)
* violation / known-finding / evidence bookkeeping
"""
import os, sys, json, time, hashlib, signal, subprocess, random, traceback
from fractions import Fraction

VERIF = os.path.dirname(os.path.dirname(os.path.abspath(__file__)))
LEAN = os.path.join(VERIF, "lean")
REPO = os.environ.get("PERMUTE_REPO", "/repo")
if REPO not in sys.path:
    sys.path.insert(0, REPO)

import numpy as np  # noqa: E402


# ----------------------------------------------------------------------------- encoding
def rat(v):
    """exact `num/den` text of an int / float / Fraction / numpy scalar"""
    if isinstance(v, (bool, np.bool_)):
        return "1" if v else "0"
    if isinstance(v, (int, np.integer)):
        return str(int(v))
    if isinstance(v, Fraction):
        return str(v.numerator) if v.denominator == 1 else f"{v.numerator}/{v.denominator}"
    f = float(v)
    if f != f or f in (float("inf"), float("-inf")):
        raise ValueError("non-finite value cannot be encoded: %r" % (v,))
    n, d = f.as_integer_ratio()
    return str(n) if d == 1 else f"{n}/{d}"


def rats(vs):
    return " ".join(rat(v) for v in vs)


def ints(vs):
    return " ".join(str(int(v)) for v in vs)


def rows(m, f=rats):
    return ";".join(f(r) for r in m)


def rows3(m, f=ints):
    return "#".join(rows(r, f) for r in m)


def frac(s):
    s = s.strip()
    if "/" in s:
        a, b = s.split("/")
        return Fraction(int(a), int(b))
    return Fraction(int(s))


def fracs(s):
    return [frac(t) for t in s.split()]


class NonFinite(ValueError):
    """the implementation handed back NaN / inf where the harness needs an exact finite number"""


def F(v):
    """exact Fraction of a float/int"""
    if isinstance(v, Fraction):
        return v
    if isinstance(v, (int, np.integer)):
        return Fraction(int(v))
    fv = float(v)
    if fv != fv or fv in (float("inf"), float("-inf")):
        raise NonFinite(f"non-finite value {fv!r}")
    return Fraction(fv)


def close(x, q, rel=1e-9, ab=1e-12):
    """float x agrees with exact rational q"""
    qf = float(q)
    return abs(float(x) - qf) <= ab + rel * abs(qf)


def numerator_of(p, denom, tol=1e-9):
    """recover the integer numerator of a returned p-value p = k/denom (F3)"""
    k = float(p) * denom
    if k != k or k in (float("inf"), float("-inf")):
        return None
    r = round(k)
    if abs(k - r) > tol * max(1.0, abs(k)):
        return None
    return int(r)


# ----------------------------------------------------------------------------- caller-side arrays
class BufferPool:
    """Hands out the *same* ndarray object again and again for arrays of one name / shape / dtype,
    refilled in place — what a caller running a simulation loop over a preallocated buffer does.
    Results must only depend on the contents, never on the identity or history of the object
    (identity-keyed caches, aliasing of internal state with caller arrays)."""

    def __init__(self):
        self.bufs = {}

    def get(self, name, values, dtype=None):
        a = np.array(values) if dtype is None else np.array(values, dtype=dtype)
        key = (name, a.shape, a.dtype.str)
        b = self.bufs.get(key)
        if b is None:
            self.bufs[key] = a
            return a
        b[...] = a
        return b


POOL = BufferPool()


def layout(a, rng):
    """the same values in another memory layout: C order, Fortran order, or a non-contiguous view"""
    a = np.asarray(a)
    u = rng.random()
    if a.ndim == 2 and u < 0.25:
        return np.asfortranarray(a)
    if a.ndim == 2 and u < 0.4:
        big = np.zeros((a.shape[0], 2 * a.shape[1]), dtype=a.dtype); big[:, ::2] = a
        return big[:, ::2]
    if a.ndim == 1 and u < 0.2:
        big = np.zeros(2 * a.shape[0], dtype=a.dtype); big[::2] = a
        return big[::2]
    return a


# ----------------------------------------------------------------------------- timeouts
class Timeout(Exception):
    pass


def _alarm(signum, frame):
    raise Timeout()


signal.signal(signal.SIGALRM, _alarm)


class TooManyTimeouts(RuntimeError):
    """several calls into /repo did not return within their time limit: the run is stopped and reported as a violation
    (on the unchanged tree every generated call returns in milliseconds)"""


TIMEOUTS = []          # descriptions of the calls that hit their alarm in this run
MAX_TIMEOUTS = 3


def guarded(fn, *a, secs=20, **k):
    """call into /repo under an alarm. returns ('ok', value) | ('exc', ExceptionName, text) |
    ('timeout', 'TimeoutError', text)"""
    signal.alarm(secs)
    try:
        v = fn(*a, **k)
        signal.alarm(0)
        return ("ok", v)
    except Timeout:
        signal.alarm(0)
        desc = f"{getattr(fn, '__name__', repr(fn))}({', '.join(repr(x)[:120] for x in a)}{', ' if a and k else ''}{', '.join(f'{kk}={vv!r}'[:80] for kk, vv in k.items())}) did not return within {secs} s"
        TIMEOUTS.append(desc[:900])
        if len(TIMEOUTS) >= MAX_TIMEOUTS:
            raise TooManyTimeouts("; ".join(TIMEOUTS)[:2500])
        return ("timeout", "TimeoutError", desc[:300])
    except BaseException as e:  # noqa: BLE001
        signal.alarm(0)
        if isinstance(e, (KeyboardInterrupt, SystemExit)):
            raise
        return ("exc", type(e).__name__, str(e)[:300])
    finally:
        signal.alarm(0)


# ----------------------------------------------------------------------------- Lean driver
_DRIVER = os.path.join(LEAN, ".lake", "build", "bin", "driver")


def ensure_driver():
    """(re)build the native driver; no-op when up to date"""
    r = subprocess.run(["lake", "build", "driver"], cwd=LEAN, capture_output=True, text=True,
                       timeout=1500)
    if r.returncode != 0 or not os.path.exists(_DRIVER):
        sys.stderr.write(r.stdout[-3000:] + r.stderr[-3000:])
        raise RuntimeError("lean driver build failed")


def run_model(lines, timeout=900):
    """pipe operation lines to the model; one output line per input line"""
    if not lines:
        return []
    for ln in lines:
        if "\n" in ln:
            raise ValueError("newline inside op")
    data = "\n".join(lines) + "\n"
    if os.path.exists(_DRIVER):
        cmd = [_DRIVER]
    else:
        cmd = ["lake", "env", "lean", "--run", "Driver.lean"]
    r = subprocess.run(cmd, cwd=LEAN, input=data, capture_output=True, text=True, timeout=timeout)
    if r.returncode != 0:
        raise RuntimeError("lean driver failed: " + r.stderr[-2000:])
    out = r.stdout.split("\n")
    if out and out[-1] == "":
        out.pop()
    if len(out) != len(lines):
        raise RuntimeError(f"driver returned {len(out)} lines for {len(lines)} ops")
    return out


def fields(s):
    """parse `k=v|k=v` output into a dict (values stay text)"""
    d = {}
    for part in s.split("|"):
        if "=" in part:
            k, v = part.split("=", 1)
            d[k] = v
    return d


# ----------------------------------------------------------------------------- results
class Ctx:
    """per-run bookkeeping for one property"""

    def __init__(self, prop, tier, seed):
        self.prop, self.tier, self.seed = prop, tier, seed
        self.t0 = time.time()
        self.rng = random.Random(f"{prop}-{seed}")
        self.nprng = np.random.RandomState((seed * 7919 + int(prop[1:]) * 104729) % (2**32))
        self.evaluations = 0
        self.nontrivial = set()
        self.samples = []
        self.hist = {}
        self.blocks = {}          # correspondence blocks: name -> (cases, ok)
        self.violations = []      # dicts
        self.known_hits = {}      # finding id -> count
        self.bracketed = 0
        self.exhaustive = False
        self.notes = []
        self.known = load_known()

    def thorough(self):
        return self.tier == "thorough"

    def n(self, quick, thorough):
        return thorough if self.tier == "thorough" else quick

    def count(self, key, k=1):
        self.hist[key] = self.hist.get(key, 0) + k

    def case(self, key, nontrivial=True, sample=None):
        """register one evaluated case; `key` identifies it for the distinct count"""
        self.evaluations += 1
        self.last_detail = sample if sample is not None else str(key)[:600]
        if nontrivial:
            self.nontrivial.add(hashlib.sha1(repr(key).encode()).hexdigest()[:16])
        if sample is not None and len(self.samples) < 6:
            self.samples.append(sample)

    def block(self, name, ok=True, k=1):
        c, o = self.blocks.get(name, (0, True))
        self.blocks[name] = (c + k, o and ok)

    def violation(self, kind, detail, site=None, no_input=False):
        """record a violation unless it matches a known finding"""
        v = {"property": self.prop, "kind": kind, "site": site, "detail": detail,
             "no_failing_input": bool(no_input)}
        for kf in self.known:
            if kf.get("status") != "known" or kf.get("property") != self.prop:
                continue
            m = kf.get("match", {})
            if m.get("site") == site and m.get("kind") == kind and _match_extra(m, detail):
                self.known_hits[kf["id"]] = self.known_hits.get(kf["id"], 0) + 1
                return False
        self.violations.append(v)
        return True


def _match_extra(m, detail):
    for k, allowed in m.get("where", {}).items():
        if detail.get(k) not in allowed:
            return False
    return True


def load_known():
    p = os.path.join(VERIF, "known_findings.json")
    if not os.path.exists(p):
        return []
    return json.load(open(p)).get("findings", [])


def jsonable(o):
    if isinstance(o, Fraction):
        return rat(o)
    if isinstance(o, (np.integer,)):
        return int(o)
    if isinstance(o, (np.floating,)):
        return float(o)
    if isinstance(o, np.ndarray):
        return o.tolist()
    if isinstance(o, (set, tuple)):
        return list(o)
    if isinstance(o, bytes):
        return o.hex()
    return repr(o)


def finish(ctx, lean_info, level_text, assumptions):
    """write evidence, print findings/violations, return the exit code"""
    evdir = os.environ.get("VERIF_EVIDENCE_DIR") or os.path.join(VERIF, "evidence")   # override: experiments on scratch copies
    os.makedirs(evdir, exist_ok=True)
    obligations = lean_info["theorems"] + len(ctx.blocks)
    discharged = lean_info["theorems_ok"] + sum(1 for c, ok in ctx.blocks.values() if ok)
    code = 0
    for kid, cnt in sorted(ctx.known_hits.items()):
        kf = next(k for k in ctx.known if k["id"] == kid)
        print(f"KNOWN-FINDING: property={ctx.prop} {kf['what']} (matched {cnt} generated inputs)")
    if ctx.violations:
        os.makedirs(os.path.join(VERIF, "replays"), exist_ok=True)
        v = ctx.violations[0]
        h = hashlib.sha1(json.dumps(v, sort_keys=True, default=jsonable).encode()).hexdigest()[:10]
        path = os.path.join("replays", f"{ctx.prop}-{h}.json")
        json.dump({"property": ctx.prop, "seed": ctx.seed, "tier": ctx.tier, "first": v,
                   "all": ctx.violations[:20], "count": len(ctx.violations)},
                  open(os.path.join(VERIF, path), "w"), indent=1, default=jsonable)
        tail = " no-failing-input-found" if all(x["no_failing_input"] for x in ctx.violations) else ""
        print(f"VIOLATION property={ctx.prop} replay={path}{tail}")
        code = 1
    ev = {
        "property_id": ctx.prop, "tier": ctx.tier, "seed": ctx.seed, "level": "proof",
        "coverage": {
            "obligations": obligations, "discharged": discharged if code == 0 else min(discharged, obligations - 1),
            "checker_cmd": lean_info["checker_cmd"],
            "trusted_base": lean_info["trusted_base"],
            "theorems": lean_info["theorem_names"],
            "correspondence_blocks": {k: {"cases": c, "agree": ok} for k, (c, ok) in ctx.blocks.items()},
            "evaluations": ctx.evaluations, "distinct_nontrivial": len(ctx.nontrivial),
            "rule": lean_info.get("rule", ""),
            "samples": ctx.samples[:6] or ["(no sample recorded)"],
            "input_distribution": ctx.hist,
            "bracketed_comparisons": ctx.bracketed,
            "exhaustive": ctx.exhaustive,
            "known_findings_matched": ctx.known_hits,
            "notes": ctx.notes,
            "explanation": level_text,
        },
        "assumptions": assumptions,
        "wall_s": round(time.time() - ctx.t0, 2),
        "violations": len(ctx.violations),
    }
    json.dump(ev, open(os.path.join(evdir, f"{ctx.prop}.json"), "w"), indent=1, default=jsonable)
    return code


def gstate():
    """complete snapshot of numpy's global generator (the key array alone changes only once per 624 words)"""
    import numpy as np
    st = np.random.get_state()
    return (st[0], st[1].tobytes(), int(st[2]), int(st[3]), float(st[4]))
