"""C07 — NPC global p-value is an exact rank p-value: never zero, exactly valid."""
from fractions import Fraction as Fr
import numpy as np
from .common import guarded, run_model, rat, rats, rows, frac, fracs, close, numerator_of, POOL, layout
from .npcutil import scripted_experiment, npc_exact, row_pvals_exact, comb_exact

RULE = ("sim_npc driven by a scripted Randomizer and table-lookup test functions over generated integer tables "
        "(reps 1..40, 2..5 columns, ties within columns; observed row extreme / central / equal to a simulated "
        "row), all built-in combiners and a user callable; npc called directly with both plus1 values; every row "
        "of small tables rotated into the observed position (exact validity); non-trivial = the table has a tie "
        "in some column or the observed row is extreme; distinct by table content")
LEVEL = ("theorems simnpc_rank_exact / simnpc_pos (for every combining function), npc_range, rank_valid, "
         "npc_exact_valid; model validated against npc.npc and npc.sim_npc")
ASSUMPTIONS = ["Fisher/Liptak/user combiners are evaluated in doubles: rows whose exact combined statistic ties the observed one "
               "although their p-vectors differ may be ordered either way; the implementation's count must lie in the bracket "
               "[ge - ambiguous, ge] (bracketed comparisons are counted in the evidence)",
               "Liptak (normal quantiles) has no exact model: checked for range, never-zero and against a double-precision oracle only"]
COMBS = ["fisher", "tippett", "liptak", "callable", "callable-dot", "callable-sum0", "callable-logsum0", "callable-truncated", "callable-count"]


def user_combiner(kind, n, rng):
    """user combining functions written the ways users write them; returns (python callable, model name)"""
    if kind == "callable":
        return (lambda p: -np.sum(p)), "negsum"
    if kind == "callable-dot":
        w = [rng.choice([0.5, 1.0, 2.0, 0.25]) for _ in range(n)]
        wa = np.array(w)
        return (lambda p: -np.dot(wa, p)), "negwsum:" + " ".join(str(Fr(v)) for v in w)
    if kind == "callable-truncated":      # weakly decreasing, flat above the truncation point (truncated-product style)
        tau = rng.choice([0.5, 0.25, 0.75])
        return (lambda p, tau=tau: -np.sum(np.minimum(p, tau))), "negminsum:" + str(Fr(tau))
    if kind == "callable-count":          # a step function: how many partial tests are significant at tau
        tau = rng.choice([0.5, 0.25, 0.75])
        return (lambda p, tau=tau: float(np.sum(np.asarray(p) <= tau))), "countbelow:" + str(Fr(tau))
    if kind == "callable-sum0":
        return (lambda p: -p.sum(0)), "negsum"
    if kind == "callable-logsum0":
        return (lambda p: -2 * np.log(p).sum(axis=0)), "fisher"
    return kind, kind


def disguise(f, rng, count=None, exact_ok=False):
    """the same user function written the other ways users write it: under a name a library combiner also has (it is
    still the user's function), in extended precision (np.longdouble), or in exact rationals. None of this changes the
    function's value as a real number beyond rounding of its own arithmetic."""
    if not callable(f):
        return f
    u = rng.random()
    if u < 0.25:
        nm = rng.choice(["fisher", "tippett", "liptak"])
        def g(p, _f=f):
            return _f(p)
        g.__name__ = nm; g.__qualname__ = nm
        if count: count("user-combiner-named-like-a-library-one")
        return g
    if u < 0.40:
        if count: count("user-combiner-in-longdouble")
        return lambda p, _f=f: _f(np.asarray(p, dtype=np.longdouble))
    if u < 0.50 and exact_ok:      # only for the plain negative sum: exact rational arithmetic on the doubles it is given
        if count: count("user-combiner-returning-Fraction")
        return lambda p: -sum((Fr(float(x)) for x in p), Fr(0))
    return f


INF = float("inf")
EMB = 10**9          # order embedding of +-inf for the exact oracle and the model (finite statistics are far smaller in absolute value)
emb = lambda v: EMB if v == INF else (-EMB if v == -INF else v)


def gen_table(ctx):
    reps = ctx.rng.choice([1, 2, 3, 5, 8, 10, 13, 20, 40]) if ctx.rng.random() < 0.7 else (ctx.rng.randint(1, 40) if ctx.rng.random() < 0.85 else ctx.rng.choice([99, 150, 257]))
    n = ctx.rng.randint(2, 5) if ctx.rng.random() < 0.85 else ctx.rng.choice([8, 9, 12, 16])
    if ctx.rng.random() < 0.25:
        reps = n - 1              # square matrix of statistics: #rows == #partial tests
    hi = ctx.rng.choice([2, 3, 6, 12])
    tv = [[ctx.rng.randint(0, hi) for _ in range(n)] for _ in range(reps)]
    mode = ctx.rng.choice(["extreme", "central", "copy", "mixed", "low"])
    if mode == "extreme":
        ts = [max(r[c] for r in tv) + ctx.rng.randint(0, 1) for c in range(n)]
    elif mode == "low":
        ts = [min(r[c] for r in tv) - ctx.rng.randint(0, 1) for c in range(n)]
    elif mode == "copy":
        ts = list(ctx.rng.choice(tv))
    elif mode == "central":
        ts = [sorted(r[c] for r in tv)[reps // 2] for c in range(n)]
    else:
        ts = [ctx.rng.randint(0, hi + 1) for _ in range(n)]
    if ctx.rng.random() < 0.06:
        # infinite statistics (risk ratios with an empty cell, t with no spread): ordered like any other value, equal infinities tie
        for c in range(n):
            if ctx.rng.random() < 0.7:
                for r in tv:
                    if ctx.rng.random() < 0.35:
                        r[c] = INF if ctx.rng.random() < 0.7 else -INF
                if ctx.rng.random() < 0.5:
                    ts[c] = INF if ctx.rng.random() < 0.7 else -INF
        return reps, n, tv, ts, "infinite"
    if ctx.rng.random() < 0.06:
        # integer statistics beyond 2^53 (sums of ids / nanosecond timestamps): distinct as integers, equal as doubles
        off = ctx.rng.choice([2**53, 2**53 + 1, 1_700_000_000_000_000_000])
        cols = [c for c in range(n) if ctx.rng.random() < 0.7] or [0]
        tv = [[(off + v if c in cols else v) for c, v in enumerate(r)] for r in tv]
        ts = [(off + v if c in cols else v) for c, v in enumerate(ts)]
        mode = "bigint"
    elif ctx.rng.random() < 0.02:
        # very many partial tests, observed row extreme in all of them: Fisher's product of p-values underflows to 0
        n, reps = ctx.rng.choice([(220, 30), (220, 40), (330, 9), (330, 14), (330, 20)])
        tv = [[ctx.rng.randint(0, 1000) for _ in range(n)] for _ in range(reps)]
        ts = [1001 + ctx.rng.randint(0, 1) for _ in range(n)]
        if ctx.rng.random() < 0.5:
            for c in ctx.rng.sample(range(n), 3):
                ts[c] = ctx.rng.randint(0, 1000)
        mode = "wide"
    elif n >= 3 and ctx.rng.random() < 0.12:
        # the same partial test entered twice (one response analysed in two units, a test function listed twice): identical columns
        c1, c2 = ctx.rng.sample(range(n), 2)
        tv = [list(r) for r in tv]; ts = list(ts)
        for r in tv:
            r[c2] = r[c1]
        ts[c2] = ts[c1]
    return reps, n, tv, ts, mode


def run(ctx):
    from permute import npc
    ops, meta = [], []
    user = lambda p: -np.sum(p)
    # ------------------------------------------------------------------ sim_npc
    for _ in range(ctx.n(500, 8000)):
        reps, n, tv, ts, mode = gen_table(ctx)
        tv_impl, ts_impl = tv, ts
        if mode == "infinite":
            tv, ts = [[emb(v) for v in r_] for r_ in tv], [emb(v) for v in ts]
        comb = ctx.rng.choice(COMBS)
        if mode == "wide" and ctx.rng.random() < 0.7:
            comb = "fisher"
        kinds = [ctx.rng.choice(["np", "float", "int", "f32", "i64"]) for _ in range(n)]
        if ctx.rng.random() < 0.3:
            kinds = [ctx.rng.choice(["f32", "int", "i64"])] * n      # a homogeneous non-float64 matrix
        if mode == "bigint":
            kinds = [ctx.rng.choice(["int", "i64"])] * n             # exact integer statistics throughout
        if mode == "infinite":
            kinds = [ctx.rng.choice(["np", "float"]) for _ in range(n)]
        e, tests, st = scripted_experiment(tv_impl, ts_impl, kinds)
        cfun, cname = user_combiner(comb, n, ctx.rng)
        cfun = disguise(cfun, ctx.rng, ctx.count, exact_ok=(comb == "callable"))
        tests_before = list(tests)
        r = guarded(npc.sim_npc, e, tests, combine=cfun, reps=reps, in_place=ctx.rng.random() < 0.3)
        if len(tests) != len(tests_before) or any(a_ is not b_ for a_, b_ in zip(tests, tests_before)):
            ctx.violation("input-modified", {"call": "sim_npc", "issue": "the caller's list of test functions was modified by the call"}, site="sim_npc")
        tie = any(len(set(r_[c] for r_ in tv + [ts])) < reps + 1 for c in range(n))
        ctx.case((tuple(map(tuple, tv)), tuple(ts), comb), tie or mode in ("extreme", "low"),
                 {"call": "sim_npc", "reps": reps, "combine": comb, "observed": ts, "table": tv[:6]})
        ctx.count("sim_npc-" + comb); ctx.count("obs-" + mode)
        D = tv + [ts]
        det = {"call": "sim_npc", "combine": comb, "reps": reps, "observed": ts, "table": tv, "return_kinds": kinds}
        if r[0] != "ok":
            det["error"] = r[1:]; ctx.violation("oracle", det, site="sim_npc"); continue
        p, rts, rps = r[1]
        # partial p-values are (count+1)/(reps+1)
        bad = None
        for c in range(n):
            want = Fr(sum(1 for row in tv if row[c] >= ts[c]) + 1, reps + 1)
            same_stat = (float(rts[c]) == float(ts_impl[c])) if abs(float(ts_impl[c])) == INF else close(rts[c], Fr(ts[c]))
            if not close(rps[c], want) or not same_stat:
                bad = {"issue": "partial p-value / statistic", "column": c, "returned": [float(rps[c]), float(rts[c])], "expected": [want, ts[c]]}
        k = numerator_of(p, reps + 1)
        if k is None or k < 1 or k > reps + 1:
            bad = {"issue": "global p-value is not k/(reps+1) with 1 <= k <= reps+1 (the observed row must count itself)", "returned": float(p)}
        if bad is None:
            if comb != "liptak":
                name = cname
                ps_exact = row_pvals_exact(D, False)[-1]
                ge, amb = npc_exact(ps_exact, D, name, False)
                under = None
                if mode == "wide" and comb == "fisher":
                    # np.prod underflows: every row whose exact product is below 2^-1080 is 0.0 in doubles and ties with an
                    # observed product that is 0.0 too (statistic +inf on both sides); products in [2^-1080, 2^-1000) are undecided
                    prods = []
                    for rowp in row_pvals_exact(D, False):
                        v = Fr(1)
                        for t in rowp:
                            v *= t
                        prods.append(v)
                    lo_t, hi_t = Fr(1, 2**1080), Fr(1, 2**1000)
                    if prods[-1] < lo_t:
                        under = (sum(1 for v in prods if v < lo_t), sum(1 for v in prods if v < hi_t))
                    elif prods[-1] < hi_t:
                        ctx.count("skipped-subnormal-product"); continue
                    ctx.count("fisher-product-underflow" if under else "wide-no-underflow")
                if under is not None:
                    if not (under[0] <= k <= under[1]):
                        bad = {"issue": "Fisher product underflows to 0 for the observed row: every row whose product is 0 too ties with it (+inf >= +inf), "
                                        "so the numerator must lie in the bracket; in particular the observed row counts itself",
                               "returned": float(p), "numerator": k, "bracket": list(under)}
                elif not (ge - amb <= k <= ge):
                    bad = {"issue": "global p-value is not the rank p-value of the observed row", "returned": float(p),
                           "numerator": k, "exact_count": ge, "ambiguous_ties": amb}
                elif amb:
                    ctx.bracketed += 1
                elif under is None:
                    ops.append(f"simnpc|{name}|{rats(ts)}|{rows(tv)}"); meta.append(("simnpc", det, k, [float(rps[c]) for c in range(n)]))
            else:  # liptak: double-precision oracle on single-quotient p-values
                from scipy.stats import norm
                B = reps + 1
                P = np.array([[sum(1 for u in D if u[j] >= rrow[j]) / B for j in range(n)] for rrow in D])
                P[P >= 1] = 1 - np.finfo(float).eps
                stat = np.array([np.sum(norm.ppf(1 - row)) for row in P])
                obs = np.sum(norm.ppf(1 - np.array([float(rps[c]) for c in range(n)])))
                # the observed row (last) is the same vector as the observed p-values: it must count itself
                strict = int(np.sum(stat[:-1] > obs + 1e-9)) + 1; loose = int(np.sum(stat[:-1] >= obs - 1e-9)) + 1
                if not (strict <= k <= loose):
                    bad = {"issue": "liptak global p-value outside the double-precision bracket", "numerator": k, "bracket": [strict, loose]}
        if bad is not None:
            det.update(bad); ctx.violation("oracle", det, site="sim_npc")
    # ------------------------------------------------------------------ a very large table (B * n past 2^20): exact integer oracle
    for _big in range(ctx.n(1, 3)):
        Bb, nb = ctx.rng.choice([(150001, 7), (262145, 4), (209716, 5)])
        rs_ = np.random.RandomState(ctx.rng.randint(0, 2**31 - 1))
        Db = rs_.randint(0, 50, size=(Bb, nb)).astype(float)
        combn = ctx.rng.choice(["fisher", "tippett"])
        # per-row counts k[r, j] = #{rows with a statistic >= this one} (p-value k / B): exact integers
        K = np.empty((Bb, nb), dtype=np.int64)
        for j in range(nb):
            srt = np.sort(Db[:, j]); K[:, j] = Bb - np.searchsorted(srt, Db[:, j], side="left")
        if combn == "fisher":      # larger statistic <=> smaller product of the counts (Python integers: no rounding)
            prods = K[:, 0].astype(object)
            for j in range(1, nb):
                prods = prods * K[:, j].astype(object)
            order_val = prods
        else:                      # Tippett: larger statistic <=> smaller minimum count
            order_val = K.min(axis=1).astype(object)
        cand = [int(np.argmin(order_val)), int(np.argmax(order_val)), rs_.randint(0, Bb), rs_.randint(0, Bb)]
        for r_ in cand[: (4 if ctx.thorough() else 2)]:
            pv_ = K[r_] / Bb
            rr = guarded(npc.npc, pv_.copy(), Db, combn, False, secs=120)
            ctx.case(("huge-table", Bb, nb, combn, r_), True); ctx.count("npc-table-past-2^20-cells")
            lo_ = int(np.sum(order_val < order_val[r_])) + 1; up_ = int(np.sum(order_val <= order_val[r_]))      # rows tied exactly may be split by rounding, the observed row counts itself
            kk = None if rr[0] != "ok" else numerator_of(rr[1], Bb)
            if kk is None or not (lo_ <= kk <= up_):
                ctx.violation("oracle", {"call": "npc", "combine": combn, "plus1": False, "B": Bb, "n": nb, "observed_row": r_,
                                         "table": "numpy RandomState(seed).randint(0, 50, (B, n)), seed drawn from the check's generator",
                                         "issue": "on a very large table the global p-value is not the rank p-value of the observed row (which is a row of the table and must count itself)",
                                         "returned": str(rr[1:])[:100], "numerator_bracket": [lo_, up_]}, site="npc")
    # ------------------------------------------------------------------ npc directly
    for _ in range(ctx.n(500, 8000)):
        reps, n, tv, ts, mode = gen_table(ctx)
        while mode == "wide":        # underflowing products are exercised through sim_npc above
            reps, n, tv, ts, mode = gen_table(ctx)
        D_impl = tv + [ts]
        if mode == "infinite":
            tv, ts = [[emb(v) for v in r_] for r_ in tv], [emb(v) for v in ts]
        D = tv + [ts]; B = len(D)
        plus1 = ctx.rng.random() < 0.5
        c = 1 if plus1 else 0
        comb = ctx.rng.choice(["fisher", "tippett", "callable", "callable-dot", "callable-sum0", "callable-logsum0", "callable-truncated", "callable-count"])
        cfun, name = user_combiner(comb, n, ctx.rng)
        cfun = disguise(cfun, ctx.rng, ctx.count, exact_ok=(comb == "callable"))
        if ctx.rng.random() < 0.6:
            pv = [Fr(ctx.rng.randint(1, B + c), B + c) for _ in range(n)]      # on the grid: ties with rows
        else:
            pv = [Fr(ctx.rng.randint(1, 64), 64) for _ in range(n)]            # dyadic
        dt = ctx.rng.choice([float, float, np.float32, np.int64, int])
        if mode == "bigint":
            dt = np.int64                                        # exact integers beyond 2^53: only an integer matrix holds them
        if mode == "infinite":
            dt = float
        Darr = layout(POOL.get("distr", D_impl, dt), ctx.rng)   # reused buffer, various memory layouts
        if ctx.rng.random() < 0.3:                               # a different combiner first, on the very same contents
            guarded(npc.npc, np.array([float(t) for t in pv]), Darr, combine=ctx.rng.choice(["liptak", "fisher", "tippett"]), plus1=plus1)
        r = guarded(npc.npc, POOL.get("pv", [float(t) for t in pv], float), Darr, combine=cfun, plus1=plus1)
        ctx.case((tuple(map(tuple, D)), tuple(pv), comb, plus1), True); ctx.count("npc-" + comb + ("-plus1" if plus1 else "")); ctx.count("distr-dtype-" + np.dtype(dt).name)
        det = {"call": "npc", "combine": comb, "plus1": plus1, "pvalues": [str(t) for t in pv], "distr": D, "distr_dtype": np.dtype(dt).name}
        if r[0] != "ok":
            det["error"] = r[1:]; ctx.violation("oracle", det, site="npc"); continue
        k = numerator_of(r[1], B + c)
        ge, amb = npc_exact(pv, D, name, plus1)
        if k is None or not (c <= k <= B + c) or not (ge + c - amb <= k <= ge + c):
            det.update({"issue": "npc is not (c + #{rows >= observed})/(c + B) in [c/(B+c), 1]", "returned": float(r[1]),
                        "exact_count_plus_c": ge + c, "ambiguous_ties": amb})
            ctx.violation("oracle", det, site="npc"); continue
        if amb:
            ctx.bracketed += 1; continue
        ops.append(f"npc|{int(plus1)}|{name}|{rats(pv)}|{rows(D)}"); meta.append(("npc", det, k, B + c))
    # ------------------------------------------------------------------ exact validity by rotation
    for _ in range(ctx.n(40, 400)):
        reps, n, tv, ts, mode = gen_table(ctx)
        if reps > 10 or mode in ("wide", "bigint", "infinite"):
            continue
        D = tv + [ts]; B = len(D)
        comb = ctx.rng.choice(["tippett", "fisher"])
        gps = []
        for i in range(B):
            obs = D[i]; sim = D[:i] + D[i + 1:]
            e, tests, st = scripted_experiment(sim, obs)
            r = guarded(npc.sim_npc, e, tests, combine=comb, reps=B - 1)
            gps.append(numerator_of(r[1][0], B) if r[0] == "ok" else None)
        ctx.case(("rot", tuple(map(tuple, D)), comb), True); ctx.count("rotation-validity")
        if any(g is None for g in gps):
            ctx.violation("oracle", {"call": "sim_npc-rotations", "table": D, "issue": "call failed", "numerators": gps}, site="sim_npc"); continue
        # Fisher ties between different vectors can lower a numerator; validity needs the exact count, so
        # only flag when even the most favourable reading fails
        for kk in range(1, B + 1):
            if sum(1 for g in gps if g <= kk) > kk and comb == "tippett":
                ctx.violation("oracle", {"call": "sim_npc-rotations", "combine": comb, "table": D, "numerators": gps,
                                         "issue": f"{sum(1 for g in gps if g <= kk)} of {B} exchangeable rows get p <= {kk}/{B}"}, site="sim_npc")
                break
    outs = run_model(ops)
    agree = True
    for o, m in zip(outs, meta):
        if m[0] == "simnpc":
            _, det, k, rps = m
            ps_s, res = o.split("|")
            ok = res != "ValueError" and frac(res) == Fr(k, det["reps"] + 1) and all(close(a, b) for a, b in zip(rps, fracs(ps_s)))
        else:
            _, det, k, den = m
            ok = o != "ValueError" and frac(o) == Fr(k, den)
        if not ok:
            agree = False
            ctx.violation("correspondence", {"op": m[0], "model": o, "impl_numerator": k, "input": det}, site=m[0], no_input=True)
    ctx.block("npc-model-vs-impl", agree, len(ops))


def replay(rep):
    from permute import npc
    d = rep["first"]["detail"]
    d = d.get("input", d)
    print("recorded:", rep["first"]["detail"])
    if d.get("call") == "sim_npc":
        e, tests, st = scripted_experiment(d["table"], d["observed"], d.get("return_kinds"))
        comb = (lambda p: -np.sum(p)) if d["combine"] == "callable" else d["combine"]
        print("sim_npc now ->", npc.sim_npc(e, tests, combine=comb, reps=d["reps"]))
    return 0
