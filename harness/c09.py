"""C09 — fwer_minp adjustments attach to the right hypotheses and are monotone."""
from fractions import Fraction as Fr
import itertools
import numpy as np
from .common import guarded, run_model, rats, rows, ints, fracs, close, POOL, layout
from .npcutil import liptak_bracket, npc_exact
from .c07 import disguise

RULE = ("p-value vectors with j = 2..6 in every kind of order (sorted, reversed, rotations/3-cycles, random, ties), "
        "integer distr matrices with ties (B = 2..30), Fisher / Tippett / user combiner, both plus1; non-trivial = "
        "the vector is not sorted ascending (the sorting permutation is not the identity) — non-involutive orders "
        "are generated on purpose; distinct by (pvalues, distr, combine, plus1)")
LEVEL = ("theorems fwer_attach (adjusted value of sorted position k goes to hypothesis order[k]), fwer_first, "
         "fwer_last, fwer_sorted_mono, fwer_rejects for every input and sorting permutation; Relabel.fwer_relabel (for distinct raw p-values, relabelling hypotheses and columns together permutes the output identically) for every relabelling; model validated "
         "against npc.fwer_minp")
ASSUMPTIONS = ["Fisher products in doubles: cases with an exact tie between different p-vectors in any nested npc call are excluded and counted",
               "np.argsort's choice among tied p-values is taken from NumPy and checked to be a sorting permutation by the model"]


def exact_fwer(pv, D, name, plus1, order=None):
    """closed-testing definition with exact arithmetic; returns (adjusted list, ambiguous?).
    With tied raw p-values "the k-th smallest" is not unique: any sorting permutation is a legitimate
    reading of the property, so the one NumPy chose is used (after checking that it sorts)."""
    j = len(pv)
    if order is None:
        order = sorted(range(j), key=lambda i: (pv[i], i))
    assert sorted(order) == list(range(j)) and all(pv[order[k]] <= pv[order[k + 1]] for k in range(j - 1))
    B = len(D); c = 1 if plus1 else 0
    amb_any = False
    vals = []
    for jj in range(j - 1):
        cols = order[jj:]
        ge, amb = npc_exact([pv[i] for i in cols], [[r[i] for i in cols] for r in D], name, plus1)
        amb_any |= amb > 0
        vals.append(Fr(ge + c, B + c))
    vals.append(pv[order[-1]])
    run = []
    for v in vals:
        run.append(max(v, run[-1]) if run else v)
    out = [None] * j
    for k, i in enumerate(order):
        out[i] = run[k]
    return out, amb_any, order


def run(ctx):
    from permute import npc
    ops, meta = [], []
    user_sym = lambda p: -np.sum(p)
    posw = lambda p: -np.sum(np.asarray(p, dtype=float) / np.arange(1, len(p) + 1))      # weights by position: not symmetric
    user = None
    for _ in range(ctx.n(600, 8000)):
        j = ctx.rng.randint(2, 6)
        B = ctx.rng.randint(2, 30) if ctx.rng.random() < 0.93 else ctx.rng.choice([64, 120])
        plus1 = ctx.rng.random() < 0.5
        comb = ctx.rng.choice(["fisher", "tippett", "callable", "liptak", "callable-posw"])
        name = {"callable": "negsum", "callable-posw": "negposw"}.get(comb, comb)
        den = ctx.rng.choice([B + (1 if plus1 else 0), 64, 20])
        base = sorted(ctx.rng.sample(range(1, den + 1), min(j, den)))
        while len(base) < j:
            base.append(ctx.rng.choice(base))
        kind = ctx.rng.choice(["sorted", "reversed", "rotate", "random", "ties"])
        if kind == "sorted":
            vals = sorted(base)
        elif kind == "reversed":
            vals = sorted(base, reverse=True)
        elif kind == "rotate":
            s = sorted(base); r = ctx.rng.randint(1, j - 1) if j > 1 else 0; vals = s[r:] + s[:r]
        elif kind == "ties":
            vals = [ctx.rng.choice(base[:2]) for _ in range(j)]
        else:
            vals = base[:]; ctx.rng.shuffle(vals)
        pv = [Fr(v, den) for v in vals]
        if ctx.rng.random() < 0.15:      # a raw p-value of exactly 1 (legal and common for permutation p-values)
            pv[ctx.rng.randrange(j)] = Fr(1); ctx.count("raw-p-equal-1")
        hi = ctx.rng.choice([2, 4, 9])
        D = [[ctx.rng.randint(0, hi) for _ in range(j)] for _ in range(B)]
        ulp_mode = False
        if comb == "tippett" and ctx.rng.random() < 0.3:
            # raw p-values one ulp off the attainable grid k/(B+c) (complements such as 1 - 0.9 = 0.09999999999999998): Tippett's
            # max(1 - p) is then decided by double rounding, and the oracle is the definition evaluated in doubles
            c_ = 1 if plus1 else 0; ulp_mode = True; ctx.count("tippett-one-ulp-off-grid")
            fl = []
            for _k in range(j):
                g_ = ctx.rng.randint(1, B + c_) / (B + c_)
                fl.append(ctx.rng.choice([1.0 - (1.0 - g_), float(np.nextafter(g_, 0.0)), float(np.nextafter(g_, 2.0)) if g_ < 1 else g_, g_]))
            pv = [Fr(v) for v in fl]
        pf = POOL.get("pv", [float(v) for v in pv], float); Df = layout(POOL.get("distr", D, float), ctx.rng)
        snap_p, snap_D = pf.copy(), Df.copy()
        if ctx.rng.random() < 0.35:      # other combiners first, on the very same contents and options
            for first in ctx.rng.sample(["liptak", "tippett", "fisher"], 2):
                guarded(npc.fwer_minp, pf, Df, combine=first, plus1=plus1)
                guarded(npc.npc, pf, Df, combine=first, plus1=plus1)
        cfun_ = disguise({"callable": user_sym, "callable-posw": posw}.get(comb, comb), ctx.rng, ctx.count, exact_ok=(comb == "callable"))
        r = guarded(npc.fwer_minp, pf, Df, combine=cfun_, plus1=plus1)
        nontriv = any(pv[i] > pv[i + 1] for i in range(j - 1))
        det = {"call": "fwer_minp", "pvalues": [str(v) for v in pv], "distr": D, "combine": comb, "plus1": plus1}
        ctx.case((tuple(pv), tuple(map(tuple, D)), comb, plus1), nontriv, det)
        ctx.count("order-" + kind); ctx.count(f"j={j}")
        if not (np.array_equal(pf, snap_p) and np.array_equal(Df, snap_D)):
            ctx.violation("input-modified", det, site="fwer_minp")
        if r[0] != "ok":
            det.update({"issue": "call failed", "returned": r[1:]}); ctx.violation("oracle", det, site="fwer_minp"); continue
        out = [float(v) for v in r[1]]
        if ulp_mode:
            order = [int(i) for i in np.argsort(pf)]; c_ = 1 if plus1 else 0
            Pf = np.array([[(sum(1 for u in D if u[jj_] >= row[jj_]) + 2 * c_) / (B + c_) for jj_ in range(j)] for row in D])
            pfl = np.array([float(v) for v in pv])
            vals_ = []
            for jj in range(j - 1):
                cols = order[jj:]
                stat = np.max(1 - Pf[:, cols], axis=1); obs_ = np.max(1 - pfl[cols])
                vals_.append((c_ + int(np.sum(stat >= obs_))) / (c_ + B))
            vals_.append(float(pfl[order[-1]]))
            run_ = np.maximum.accumulate(vals_)
            if len(out) != j or any(abs(out[order[k]] - run_[k]) > 1e-12 for k in range(j)):
                det.update({"issue": "Tippett with raw p-values one ulp off the grid: not the closed-testing values of the definition evaluated in doubles",
                            "pvalues_as_doubles": [repr(float(v)) for v in pv], "returned": out, "expected_in_sorted_order": [float(v) for v in run_], "order": order})
                ctx.violation("oracle", det, site="fwer_minp")
            continue
        if comb == "liptak":
            # double-precision oracle: numerator brackets of every nested npc, running maxima of both ends
            order = [int(i) for i in np.argsort(pf)]; c_ = 1 if plus1 else 0
            los, his = [], []
            for jj in range(j - 1):
                cols = order[jj:]
                lo_, hi_ = liptak_bracket([pv[i] for i in cols], [[row[i] for i in cols] for row in D], plus1)
                los.append(lo_ / (B + c_)); his.append(hi_ / (B + c_))
            los.append(float(pv[order[-1]])); his.append(float(pv[order[-1]]))
            los = np.maximum.accumulate(los); his = np.maximum.accumulate(his)
            ctx.count("liptak-bracket")
            if len(out) != j or any(not (los[k] - 1e-12 <= out[order[k]] <= his[k] + 1e-12) for k in range(j)):
                det.update({"issue": "not the closed-testing adjusted p-values (Liptak) in the caller's order", "returned": out,
                            "bracket_in_sorted_order": [los.tolist(), his.tolist()], "order": order})
                ctx.violation("oracle", det, site="fwer_minp")
            continue
        want, amb, _ = exact_fwer(pv, D, name, plus1, [int(i) for i in np.argsort(pf)])
        if amb:
            ctx.bracketed += 1; continue
        if len(out) != j or not all(close(a, b) for a, b in zip(out, want)):
            det.update({"issue": "not the closed-testing adjusted p-values in the caller's order", "returned": out, "expected": [float(v) for v in want]})
            ctx.violation("oracle", det, site="fwer_minp"); continue
        for a in range(j):
            for b in range(j):
                if pv[a] <= pv[b] and pv[a] != pv[b] and out[a] > out[b] + 1e-12:
                    det.update({"issue": "adjusted p-values are not non-decreasing in the raw p-values", "returned": out})
                    ctx.violation("oracle", det, site="fwer_minp")
        if not all(-1e-12 <= v <= 1 + 1e-12 for v in out):
            det.update({"issue": "adjusted p-value outside [0,1]", "returned": out}); ctx.violation("oracle", det, site="fwer_minp")
        # relabelling (distinct raw p-values): permute pvalues and columns together
        if len(set(pv)) == j:
            perm = list(range(j)); ctx.rng.shuffle(perm)
            r2 = guarded(npc.fwer_minp, pf[perm], Df[:, perm], combine=(user_sym if comb == "callable" else cfun_), plus1=plus1)
            w2, amb2, _ = exact_fwer([pv[i] for i in perm], [[row[i] for i in perm] for row in D], name, plus1)
            if not amb2 and (r2[0] != "ok" or not all(close(float(r2[1][k]), want[perm[k]]) for k in range(j))):
                det.update({"issue": "relabelling the hypotheses does not permute the output", "perm": perm,
                            "returned": r2[1:] if r2[0] != "ok" else [float(v) for v in r2[1]], "original": out})
                ctx.violation("oracle", det, site="fwer_minp")
        order = [int(i) for i in np.argsort(pf)]
        ops.append(f"fwer|{int(plus1)}|{name}|{rats(pv)}|{ints(order)}|{rows(D)}"); meta.append((det, out))
    # very long permutation distributions (B on and past 2^16): exact integer oracle, vectorised
    for B in ([65536, 65537, 70000, 131073] if ctx.thorough() else [ctx.rng.choice([70000, 81920 + 4321])] + ([65537] if ctx.rng.random() < 0.3 else [])):      # (well past 2^16 always: one row past it is nearly invisible)
        j_ = ctx.rng.randint(2, 3); plus1 = ctx.rng.random() < 0.5; c_ = 1 if plus1 else 0
        rs = np.random.RandomState(ctx.rng.randint(0, 10**6))
        Dbig = rs.randint(0, 10, size=(B, j_))
        ks = sorted(ctx.rng.sample(range(1, B + c_), j_)); ctx.rng.shuffle(ks)
        if ctx.rng.random() < 0.7:      # the observed p-values of a row of the table itself: the NPC values are then spread over (0, 1), not piled up at an end
            rrow_ = Dbig[rs.randint(0, B)]
            ks = [int((Dbig[:, jj] >= rrow_[jj]).sum()) + c_ for jj in range(j_)]
            if len(set(ks)) < j_:
                ks = [k_ + 3 * i_ for i_, k_ in enumerate(ks)]; ks = [min(k_, B + c_ - 1) for k_ in ks]
        pvb = np.array([k / (B + c_) for k in ks])
        for comb_ in ("fisher", "tippett"):
            r = guarded(npc.fwer_minp, pvb, Dbig.astype(float), comb_, plus1, secs=120)
            ctx.case(("bigB", B, comb_, plus1, tuple(ks)), True); ctx.count("very-long-distr")
            if r[0] != "ok":
                ctx.violation("oracle", {"call": "fwer_minp", "B": B, "combine": comb_, "issue": "call failed", "returned": str(r[1:])[:200]}, site="fwer_minp"); continue
            cnt_ge = [np.array([(Dbig[:, jj] >= v).sum() for v in range(10)], dtype=np.int64) + 2 * c_ for jj in range(j_)]
            A = np.stack([cnt_ge[jj][Dbig[:, jj]] for jj in range(j_)], axis=1)          # numerators of the row p-values
            order = [int(i) for i in np.argsort(pvb)]
            los, his = [], []
            for jj in range(j_ - 1):
                cols = order[jj:]
                if comb_ == "fisher":
                    rowv = np.prod(A[:, cols], axis=1); obsv = int(np.prod([ks[i] for i in cols]))
                else:
                    rowv = np.min(A[:, cols], axis=1); obsv = min(ks[i] for i in cols)
                strict, loose = int((rowv < obsv).sum()), int((rowv <= obsv).sum())
                los.append((strict + c_) / (B + c_)); his.append((loose + c_) / (B + c_))
            los.append(float(pvb[order[-1]])); his.append(float(pvb[order[-1]]))
            los = np.maximum.accumulate(los); his = np.maximum.accumulate(his)
            out = [float(v) for v in r[1]]
            if comb_ == "tippett":
                los = his          # no rounding ambiguity for minima of integers
            if any(not (los[k] - 1e-12 <= out[order[k]] <= his[k] + 1e-12) for k in range(j_)):
                ctx.violation("oracle", {"call": "fwer_minp", "B": B, "combine": comb_, "plus1": plus1, "pvalue_numerators": ks, "distr": f"RandomState({rs.get_state()[1][0]}).randint(0, 10, ({B}, {j_})) [first seed word shown]",
                                         "issue": "very long distr: adjusted p-values outside the exact bracket", "returned": out, "bracket_sorted": [np.asarray(los).tolist(), np.asarray(his).tolist()], "order": order}, site="fwer_minp")
    # buffers refilled in place with new contents between two calls: second result as on fresh arrays
    for _ in range(ctx.n(40, 400)):
        B = ctx.rng.randint(3, 12); j_ = ctx.rng.randint(2, 4); comb_ = ctx.rng.choice(["fisher", "tippett", "liptak"]); p1_ = ctx.rng.random() < 0.5
        D1 = np.array([[ctx.rng.randint(0, 9) for _ in range(j_)] for _ in range(B)], dtype=float); D2 = np.array([[ctx.rng.randint(0, 9) for _ in range(j_)] for _ in range(B)], dtype=float)
        q1 = np.array([ctx.rng.randint(1, 19) / 20 for _ in range(j_)]); q2 = np.array([ctx.rng.randint(1, 19) / 20 for _ in range(j_)])
        bufD, bufp = D1.copy(), q1.copy()
        ra = guarded(npc.fwer_minp, bufp, bufD, comb_, p1_)
        bufD[...] = D2; bufp[...] = q2
        rb = guarded(npc.fwer_minp, bufp, bufD, comb_, p1_); rf = guarded(npc.fwer_minp, q2.copy(), D2.copy(), comb_, p1_)
        ctx.case(("refill", comb_, p1_, tuple(q1), tuple(q2), D1.tobytes(), D2.tobytes()), True); ctx.count("buffer-refilled-in-place")
        if rb[0] != "ok" or rf[0] != "ok" or not np.array_equal(np.array(rb[1]), np.array(rf[1])):
            ctx.violation("oracle", {"call": "fwer_minp", "combine": comb_, "plus1": p1_, "first": [q1.tolist(), D1.tolist()], "second": [q2.tolist(), D2.tolist()],
                                     "issue": "fwer_minp on buffers refilled in place differs from fwer_minp on fresh arrays with the same contents",
                                     "refilled": str(rb[1:])[:120], "fresh": str(rf[1:])[:120]}, site="fwer_minp")
    # what one call handed back must not change when the function is called again (no shared result buffers)
    for comb_ in ("fisher", "tippett", "liptak"):
        D1 = np.array([[1., 2, 3], [2, 1, 1], [3, 3, 2], [0, 0, 0]]); D2 = D1[::-1].copy()
        a = guarded(npc.fwer_minp, np.array([0.2, 0.5, 0.4]), D1, comb_, False)
        keep = None if a[0] != "ok" else np.array(a[1], dtype=float).copy()
        b = guarded(npc.fwer_minp, np.array([0.7, 0.1, 0.3]), D2, comb_, True)
        ctx.case(("stable-result", comb_), True); ctx.count("result-stability")
        if a[0] != "ok" or b[0] != "ok" or not np.array_equal(np.array(a[1], dtype=float), keep):
            ctx.violation("oracle", {"combine": comb_, "issue": "the array returned by one call changed when fwer_minp was called again (shared result buffer)",
                                     "first_now": str(a[1:])[:200], "first_then": None if keep is None else keep.tolist()}, site="fwer_minp")
    # rejected inputs
    for pvals, D in [([0.5], [[1.0]]), ([0.2, 0.3], [[1.0, 2.0, 3.0]]), ([0.2, 0.3, 0.4], [[1.0, 2.0]])]:
        r = guarded(npc.fwer_minp, np.array(pvals), np.array(D), "fisher")
        ctx.case(("reject", tuple(pvals)), True); ctx.count("rejected-shapes")
        if not (r[0] == "exc" and r[1] == "ValueError"):
            ctx.violation("oracle", {"call": "fwer_minp", "pvalues": pvals, "distr": D, "issue": "bad shapes not rejected with ValueError", "returned": r[1:]}, site="fwer_minp")
        ops.append(f"fwer|1|fisher|{rats([Fr(v) for v in pvals])}|{ints(np.argsort(pvals))}|{rows(D)}"); meta.append((None, "ValueError"))
    outs = run_model(ops)
    agree = True
    for o, (det, out) in zip(outs, meta):
        if out == "ValueError":
            ok = o == "ValueError"
        else:
            ok = o not in ("ValueError", "not-a-sorting-permutation") and all(close(a, b) for a, b in zip(out, fracs(o))) and len(fracs(o)) == len(out)
        if not ok:
            agree = False
            ctx.violation("correspondence", {"model": o, "impl": out, "input": det}, site="fwer_minp", no_input=True)
    ctx.block("fwer_minp-model-vs-impl", agree, len(ops))


def replay(rep):
    from permute import npc
    d = rep["first"]["detail"]; d = d.get("input", d)
    print("recorded:", rep["first"]["detail"])
    comb = (lambda p: -np.sum(p)) if d["combine"] == "callable" else d["combine"]
    print("now ->", npc.fwer_minp(np.array([float(Fr(v)) for v in d["pvalues"]]), np.array(d["distr"], dtype=float), combine=comb, plus1=d["plus1"]))
    return 0
