"""C10 — Westfall-Young adjusted p-values dominate raw ones and control FWER exactly."""
from fractions import Fraction as Fr
import numpy as np
from .common import guarded, run_model, rats, rows, fracs, close, numerator_of
from .npcutil import scripted_experiment

RULE = ("westfall_young driven by a scripted Randomizer and table-lookup test functions over generated integer "
        "tables (reps 1..25, 1..4 hypotheses, negative, tied and infinite statistics; observed row extreme / central / equal to "
        "a simulated row), methods minP and maxT, alternatives greater / two-sided as string or per-test list, both "
        "in_place; every row of tables with <= 8 rows rotated into the observed position (exact FWER); "
        "non-trivial = more than one hypothesis or a tie with the observed statistic; distinct by table and options")
LEVEL = ("theorems wy_minp_raw_spec, wy_minp_adj_ge_raw, wy_minp_range, wy_minp_order, wy_minp_min_is_rank, "
         "wy_minp_fwer_exact, WYMaxRank.wy_maxt_min_is_rank / wy_maxt_fwer_exact / wy_maxtl_min_is_rank (exact FWER of maxT, also for mixed lists) (+ maxT analogues) for every table; Relabel.wy_minp_relabel / wy_maxt_relabel (relabelling equivariance for distinct raw p-values / statistics, every relabelling); model validated against npc.westfall_young")
ASSUMPTIONS = ["maxT with a per-test list mixing 'greater' and 'two-sided': every hypothesis enters on its own scale (Model wyMaxTL; the "
               "code did otherwise until repair D17, commit 82fd866)",
               "+-inf statistics are passed to the exact oracle and the model as +-10^6 (an order embedding: only comparisons, negation and absolute values are taken); NaN statistics are outside the domain"]


def stepdown_oracle(ts, tv, method, two):
    """textbook step-down with exact arithmetic; `two` is a list of booleans (per test)"""
    reps, m = len(tv), len(ts)
    val = lambda c, v: abs(Fr(v)) if two[c] else Fr(v)
    T = [[val(c, r[c]) for c in range(m)] for r in tv]
    t = [val(c, ts[c]) for c in range(m)]
    raw = [Fr(sum(1 for r in T if r[c] >= t[c]) + 1, reps + 1) for c in range(m)]
    if method == "minP":
        allrows = T + [t]
        P = [[Fr(sum(1 for r2 in allrows if r2[c] >= r[c]), reps + 1) for c in range(m)] for r in T]
        order = sorted(range(m), key=lambda c: (-raw[c], c))          # largest raw p first (stable)
        q = [list(row) for row in P]
        for b in range(reps):
            for k in range(1, m):
                q[b][order[k]] = min(q[b][order[k]], q[b][order[k - 1]])
        adj = {}
        prev = None
        for c in reversed(order):
            a = Fr(sum(1 for b in range(reps) if q[b][c] <= raw[c]) + 1, reps + 1)
            adj[c] = a if prev is None else max(a, adj[prev]); prev = c
    else:
        order = sorted(range(m), key=lambda c: (t[c], c))             # smallest observed statistic first
        u = [list(row) for row in T]
        for b in range(reps):
            for k in range(1, m):
                u[b][order[k]] = max(u[b][order[k]], u[b][order[k - 1]])
        adj = {c: Fr(sum(1 for b in range(reps) if u[b][c] >= t[c]) + 1, reps + 1) for c in range(m)}
        prev = None
        for c in reversed(order):
            if prev is not None:
                adj[c] = max(adj[c], adj[prev])
            prev = c
    return [adj[c] for c in range(m)], raw


def gen(ctx):
    reps = ctx.rng.choice([1, 2, 3, 4, 6, 7, 10, 15, 25]) if ctx.rng.random() < 0.93 else ctx.rng.choice([60, 101])
    m = ctx.rng.randint(1, 4)
    hi = ctx.rng.choice([1, 2, 4, 8])
    tv = [[ctx.rng.randint(-hi, hi) for _ in range(m)] for _ in range(reps)]
    mode = ctx.rng.choice(["extreme", "central", "copy", "mixed", "negative"])
    if mode == "extreme":
        ts = [max(abs(r[c]) for r in tv) + ctx.rng.randint(0, 1) for c in range(m)]
    elif mode == "negative":
        ts = [-max(abs(r[c]) for r in tv) - ctx.rng.randint(0, 1) for c in range(m)]
    elif mode == "copy":
        ts = list(ctx.rng.choice(tv))
    elif mode == "central":
        ts = [sorted(r[c] for r in tv)[reps // 2] for c in range(m)]
    else:
        ts = [ctx.rng.randint(-hi, hi) for _ in range(m)]
    if ctx.rng.random() < 0.12:
        # infinite statistics (a t statistic with zero pooled variance is +-inf on legal data): ordered like any other value
        mode = "infinite"
        for c in range(m):
            if ctx.rng.random() < 0.7:
                s_ = ctx.rng.choice([INF, INF, -INF])
                if ctx.rng.random() < 0.8:
                    ts[c] = s_
                for r in tv:
                    if ctx.rng.random() < 0.25:
                        r[c] = s_ if ctx.rng.random() < 0.8 else -s_
    return reps, m, tv, ts, mode


INF = float("inf")
BIG = 10**6          # order-embedding of +-inf for the exact oracle and the model (all finite |statistics| are <= 9)
emb = lambda v: BIG if v == INF else (-BIG if v == -INF else v)


def run(ctx):
    from permute import npc
    ops, meta = [], []
    for _ in range(ctx.n(700, 10000)):
        reps, m, tv, ts, mode = gen(ctx)
        method = ctx.rng.choice(["minP", "maxT"])
        a = ctx.rng.random()
        if a < 0.35:
            alts = "greater"; two = [False] * m
        elif a < 0.7:
            alts = "two-sided"; two = [True] * m
        elif a < 0.8:
            t_ = ctx.rng.random() < 0.5; alts = ["two-sided" if t_ else "greater"] * m; two = [t_] * m
        else:
            two = [ctx.rng.random() < 0.5 for _ in range(m)]; alts = ["two-sided" if t_ else "greater" for t_ in two]
        kinds = [ctx.rng.choice(["np", "float", "int", "f32", "i64"]) for _ in range(m)]
        ip = ctx.rng.random() < 0.3
        if ctx.rng.random() < 0.3 and all(abs(v) != float("inf") for r_ in tv for v in r_) and all(abs(v) != float("inf") for v in ts):
            # float-valued tests take values between the whole numbers that integer-valued tests return (a running maximum carried
            # from one kind into the other must keep its fraction)
            tv = [list(r_) for r_ in tv]; ts = list(ts); ctx.count("fractional-statistics-next-to-integer-valued-tests")
            for c_ in range(m):
                if kinds[c_] in ("np", "float", "f32"):
                    off_ = ctx.rng.choice([0.5, 0.25, -0.5])
                    for r_ in tv:
                        r_[c_] = r_[c_] + off_
                    ts[c_] = ts[c_] + off_
        dup = None
        if m >= 2 and (ctx.rng.random() < 0.2 or (method == "maxT" and isinstance(alts, list) and ctx.rng.random() < 0.5)):      # the same test function listed twice (e.g. once one-sided and once two-sided)
            c1, c2 = ctx.rng.sample(range(m), 2); dup = (c1, c2); ctx.count("same-callable-listed-twice")
            tv = [list(r_) for r_ in tv]; ts = list(ts)
            for r_ in tv:
                r_[c2] = r_[c1]
            ts[c2] = ts[c1]; kinds[c2] = kinds[c1]
            if isinstance(alts, list) and ctx.rng.random() < 0.8:
                two[c2] = not two[c1]; alts = ["two-sided" if t_ else "greater" for t_ in two]
        sc = ctx.rng.choice([1, 1, 1, 1, 1e-200, 1e160, 2.0 ** -600, 2.0 ** 600, 1e-320])      # units in which squares / products leave the double range
        if sc != 1:
            kinds = [ctx.rng.choice(["np", "float"]) for _ in range(m)]; ctx.count("statistics-of-extreme-magnitude")
            e, tests, st = scripted_experiment([[v * sc for v in r_] for r_ in tv], [v * sc for v in ts], kinds)
        else:
            e, tests, st = scripted_experiment(tv, ts, kinds)
        if dup:
            tests[dup[1]] = tests[dup[0]]
        tests_before = list(tests); alts_before = list(alts) if isinstance(alts, list) else alts
        r = guarded(npc.westfall_young, e, tests, method=method, alternatives=alts, reps=reps, in_place=ip)
        if len(tests) != len(tests_before) or any(a_ is not b_ for a_, b_ in zip(tests, tests_before)) or (isinstance(alts, list) and alts != alts_before):
            ctx.violation("input-modified", {"call": "westfall_young", "method": method, "alternatives": alts_before,
                                             "issue": "the caller's list of test functions (or of alternatives) was modified by the call"}, site="westfall_young")
        det = {"call": "westfall_young", "method": method, "alternatives": alts, "reps": reps, "observed": ts, "table": tv,
               "all_statistics_multiplied_by": sc, "return_kinds": kinds, "in_place": ip}
        tie = any(abs(r_[c]) == abs(ts[c]) or r_[c] == ts[c] for r_ in tv for c in range(m))
        ctx.case((tuple(map(tuple, tv)), tuple(ts), method, str(alts)), m > 1 or tie, det if m > 1 else None)
        ctx.count(method + "-" + ("mixed" if len(set(two)) > 1 else ("two-sided" if two[0] else "greater"))); ctx.count("obs-" + mode); ctx.count(f"m={m}")
        if r[0] != "ok":
            det.update({"issue": "call failed", "returned": r[1:]}); ctx.violation("oracle", det, site="westfall_young"); continue
        adj, raw = r[1]
        adjl = [float(adj[c]) for c in range(m)]; rawl = [float(raw[c]) for c in range(m)]
        tsq, tvq = [emb(v) for v in ts], [[emb(v) for v in r_] for r_ in tv]
        wadj, wraw = stepdown_oracle(tsq, tvq, method, two)
        why = None
        if not all(close(a_, b_) for a_, b_ in zip(rawl, wraw)):
            why = "raw p-values are not (count+1)/(reps+1)"
        elif not all(close(a_, b_) for a_, b_ in zip(adjl, wadj)):
            why = "adjusted p-values are not the step-down permutation probabilities"
        elif any(adjl[c] < rawl[c] - 1e-12 for c in range(m)):
            why = "an adjusted p-value is below the raw one"
        elif any(not (1 / (reps + 1) - 1e-12 <= adjl[c] <= 1 + 1e-12) for c in range(m)):
            why = "adjusted p-value outside [1/(reps+1), 1]"
        if why:
            det.update({"issue": why, "returned": [adjl, rawl], "expected": [[float(v) for v in wadj], [float(v) for v in wraw]]})
            ctx.violation("oracle", det, site="westfall_young"); continue
        # relabelling permutes the result (distinct raw p-values for minP / distinct statistics for maxT)
        key = wraw if method == "minP" else [abs(Fr(v)) if two[c_] else Fr(v) for c_, v in enumerate(tsq)]
        if m > 1 and len(set(key)) == m:
            perm = list(range(m)); ctx.rng.shuffle(perm)
            e2, tests2, _ = scripted_experiment([[row[j] for j in perm] for row in tv], [ts[j] for j in perm])
            alts2 = alts if isinstance(alts, str) else [alts[j] for j in perm]
            r2 = guarded(npc.westfall_young, e2, tests2, method=method, alternatives=alts2, reps=reps)
            if r2[0] != "ok" or not all(close(float(r2[1][0][k]), wadj[perm[k]]) for k in range(m)):
                det.update({"issue": "relabelling the hypotheses does not permute the result", "perm": perm,
                            "returned": r2[1:] if r2[0] != "ok" else [float(r2[1][0][k]) for k in range(m)], "original": adjl})
                ctx.violation("oracle", det, site="westfall_young"); continue
        if method == "minP":
            ops.append(f"wyminp|{' '.join('1' if t_ else '0' for t_ in two)}|{rats(tsq)}|{rows(tvq)}")
        elif len(set(two)) == 1 and ctx.rng.random() < 0.7:
            ops.append(f"wymaxt|{int(two[0])}|{rats(tsq)}|{rows(tvq)}")
        else:       # per-test list of alternatives (after repair D17 also mixed ones)
            ops.append(f"wymaxtl|{' '.join('1' if t_ else '0' for t_ in two)}|{rats(tsq)}|{rows(tvq)}")
        meta.append((det, adjl, rawl))
    # ---- exact FWER by rotation: every row in turn is the observed one
    for _ in range(ctx.n(60, 600)):
        reps, m, tv, ts, mode = gen(ctx)
        if reps > 7:
            continue
        D = tv + [ts]; B = len(D)
        method = ctx.rng.choice(["minP", "maxT"]); alts = ctx.rng.choice(["greater", "two-sided"])
        mins = []
        for i in range(B):
            e, tests, _ = scripted_experiment(D[:i] + D[i + 1:], D[i])
            r = guarded(npc.westfall_young, e, tests, method=method, alternatives=alts, reps=B - 1)
            mins.append(numerator_of(min(r[1][0].values()), B) if r[0] == "ok" else None)
        ctx.case(("rot", tuple(map(tuple, D)), method, alts), True); ctx.count("rotation-fwer")
        if any(v is None for v in mins):
            ctx.violation("oracle", {"call": "westfall_young-rotations", "table": D, "method": method, "alternatives": alts, "issue": "call failed"}, site="westfall_young"); continue
        for kk in range(1, B + 1):
            if sum(1 for v in mins if v <= kk) > kk:
                ctx.violation("oracle", {"call": "westfall_young-rotations", "table": D, "method": method, "alternatives": alts, "numerators": mins,
                                         "issue": f"{sum(1 for v in mins if v <= kk)} of {B} exchangeable rows get a smallest adjusted p-value <= {kk}/{B}"}, site="westfall_young")
                break
    # ---- what one call handed back must not change when the function is called again (no shared result objects)
    for method_ in ("minP", "maxT"):
        e1, t1, _ = scripted_experiment([[1, 2], [2, 1], [0, 3]], [2, 2]); e2, t2, _ = scripted_experiment([[5, 0], [0, 5], [1, 1]], [0, 4])
        a = guarded(npc.westfall_young, e1, t1, method=method_, alternatives="greater", reps=3)
        keep = None if a[0] != "ok" else (dict(a[1][0]), dict(a[1][1]))
        b = guarded(npc.westfall_young, e2, t2, method=method_, alternatives="two-sided", reps=3)
        ctx.case(("stable-result", method_), True); ctx.count("result-stability")
        if a[0] != "ok" or b[0] != "ok" or (dict(a[1][0]), dict(a[1][1])) != keep:
            ctx.violation("oracle", {"call": "westfall_young", "method": method_, "issue": "the dictionaries returned by one call changed when westfall_young was called again (shared result object)",
                                     "first_now": str(a[1:])[:200], "first_then": str(keep)[:200]}, site="westfall_young")
    # ---- argument validation
    e, tests, _ = scripted_experiment([[0, 1]], [1, 0])
    for kw, what in [({"alternatives": "less"}, "unsupported alternative"), ({"alternatives": ["greater"]}, "list of wrong length"),
                     ({"alternatives": ("greater", "greater")}, "tuple"), ({"method": "maxP"}, "unknown method")]:
        e, tests, _ = scripted_experiment([[0, 1]], [1, 0])
        r = guarded(npc.westfall_young, e, tests, reps=1, **kw)
        ctx.case(("reject", str(kw)), True); ctx.count("rejected-arguments")
        if not (r[0] == "exc" and r[1] == "ValueError"):
            ctx.violation("oracle", {"call": "westfall_young", "kwargs": str(kw), "issue": what + " not rejected with ValueError", "returned": r[1:]}, site="westfall_young")
    r = guarded(npc.westfall_young, "not an experiment", tests, reps=1)
    if not (r[0] == "exc" and r[1] == "ValueError"):
        ctx.violation("oracle", {"call": "westfall_young", "issue": "data that is not an Experiment not rejected", "returned": r[1:]}, site="westfall_young")
    outs = run_model(ops)
    agree = True
    for o, (det, adjl, rawl) in zip(outs, meta):
        a, b = o.split("|")
        if not (all(close(x, y) for x, y in zip(adjl, fracs(a))) and all(close(x, y) for x, y in zip(rawl, fracs(b))) and len(fracs(a)) == len(adjl)):
            agree = False
            ctx.violation("correspondence", {"model": o, "impl": [adjl, rawl], "input": det}, site="westfall_young", no_input=True)
    ctx.block("westfall_young-model-vs-impl", agree, len(ops))


def replay(rep):
    from permute import npc
    d = rep["first"]["detail"]; d = d.get("input", d)
    print("recorded:", rep["first"]["detail"])
    if "table" in d and "observed" in d:
        sc = d.get("all_statistics_multiplied_by", 1)
        e, tests, _ = scripted_experiment([[v * sc for v in r_] for r_ in d["table"]] if sc != 1 else d["table"], [v * sc for v in d["observed"]] if sc != 1 else d["observed"], d.get("return_kinds"))
        print("now ->", npc.westfall_young(e, tests, method=d["method"], alternatives=d["alternatives"], reps=d["reps"]))
    return 0
