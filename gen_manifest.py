#!/usr/bin/env python3
"""regenerate MANIFEST.json from the table below (kept as a script so the file stays consistent)"""
import json, os
HERE = os.path.dirname(os.path.abspath(__file__))
PY = "/venv/bin/python"
CLAIMED = json.load(open(os.path.join(HERE, "claims.json")))
props = [json.loads(l) for l in open(os.path.join(HERE, "properties.jsonl"))]
checks, na = [], []
for p in props:
    pid = p["id"]
    c = CLAIMED.get(pid)
    if not c or c.get("not_applicable"):
        na.append({"property_id": pid, "reason": (c or {}).get("not_applicable", "check not built yet in this round; see DESIGN.md §7 for the planned model, theorems and correspondence")})
        continue
    checks.append({
        "property_id": pid,
        "quick_cmd": f"{PY} check.py {pid} quick",
        "thorough_cmd": f"{PY} check.py {pid} thorough",
        "evidence_file": f"evidence/{pid}.json",
        "replay_cmd_template": f"{PY} check.py {pid} quick --replay {{path}}",
        "engine": "lean4-proof+correspondence",
        "level_claimed": {"category": "proof", "text": c["text"], "design_ref": c.get("design_ref", "DESIGN.md §7 " + pid)},
        "level_note": c["note"],
        "technique": c.get("technique", "Lean 4 theorems about a hand-written executable model; model tied to /repo by a differential correspondence check (same inputs and recorded random draws) plus exact property oracles for failing-input search"),
    })
m = {
    "version": 1,
    "setup_cmd": "cd lean && lake build && lake build driver",
    "hooks": {"guard": "PERMUTE_VERIF", "enable": "no source hooks are needed: instrumented generator subclasses are passed through permute.utils.get_prng", "baseline_off_cmd": "cd /repo && /venv/bin/python -m pytest -ra -q -p no:cacheprovider --timeout=900 --continue-on-collection-errors", "source_commits": [], "add_only": True},
    "engines": [{"name": "lean4-proof+correspondence", "path": "check.py", "serves_properties": [c["property_id"] for c in checks],
                 "kind_free_text": "Lean 4.33 + Mathlib theorems (lean/PermuteVerif/Props) about an executable model (lean/PermuteVerif/Model, driven through lean/Driver.lean); Python harness (harness/) runs the model and /repo on the same inputs and recorded draws"}],
    "checks": checks,
    "notes": "Repairs of genuine defects are 'fix:' commits in /repo, listed in known_findings.json; see DESIGN.md §8.",
    "not_applicable": na,
}
json.dump(m, open(os.path.join(HERE, "MANIFEST.json"), "w"), indent=1)
print(len(checks), "checks,", len(na), "not claimed")
