#!/usr/bin/env python3
"""check.py <Cxx> quick|thorough [--replay <file>]

Decides one property: builds the Lean library, audits the property's theorems (#print axioms, no
sorry / added axioms), runs the correspondence between the executable model and /repo's current
working tree plus the exact property oracles, writes evidence/<id>.json.
exit 0: held on everything explored; exit 1: `VIOLATION property=<id> replay=<path>`; exit 2: the
check itself broke (timeout, harness error) — never reported as a violation.
"""
import os, sys, json, importlib, traceback, signal, time

HERE = os.path.dirname(os.path.abspath(__file__))
sys.path.insert(0, HERE)
os.environ.setdefault("PERMUTE_VERIF", "1")


def main():
    if len(sys.argv) < 3:
        print(__doc__); return 2
    prop, tier = sys.argv[1], sys.argv[2]
    seed = int(os.environ.get("VERIF_SEED", "0") or 0)
    from harness import common, lean_audit
    import warnings
    warnings.simplefilter("ignore")
    mod = importlib.import_module("harness." + prop.lower())
    if "--replay" in sys.argv:
        path = sys.argv[sys.argv.index("--replay") + 1]
        return mod.replay(json.load(open(os.path.join(HERE, path) if not os.path.isabs(path) else path)))
    ctx = common.Ctx(prop, tier, seed)
    info = lean_audit.lean_info(prop)
    info["rule"] = getattr(mod, "RULE", "")
    common.ensure_driver() if not info["problems"] else None
    from harness import corpus
    corpus.run_corpus(ctx)
    try:
        mod.run(ctx)
    except common.TooManyTimeouts as ex:
        ctx.violation("oracle", {"issue": "calls into the library do not return (each was given many times what the unchanged code needs): " + str(ex),
                                 "last_case": getattr(ctx, "last_detail", None)}, site="does-not-return")
    except common.NonFinite as ex:
        # NaN / inf came back from the implementation at a place where every admissible input gives a finite number:
        # that is a failing input of the property, not a fault of the harness
        import traceback
        ctx.violation("oracle", {"issue": "the implementation returned a non-finite number (NaN / inf) where the property requires a finite value: " + str(ex),
                                 "where": traceback.format_exc()[-1200:], "last_case": getattr(ctx, "last_detail", None)}, site="non-finite")
    if info["problems"] and not ctx.violations:
        ctx.violation("proof-obligation", {"problems": info["problems"], "log": info["build_log"][-1500:],
                                           "theorems": info["bad"]}, site="lean", no_input=True)
    if tier == "thorough" and not info["problems"]:
        mods = sorted({"PermuteVerif.Props." + t.split(".")[1] for t in info["theorem_names"] if t.count(".") >= 2})
        ok, log = lean_audit.leanchecker(mods)
        ctx.notes.append("leanchecker re-checked " + ", ".join(mods))
        ctx.block("leanchecker", ok)
        if not ok:
            ctx.violation("leanchecker", {"log": log}, site="lean", no_input=True)
    return common.finish(ctx, info, getattr(mod, "LEVEL", ""), getattr(mod, "ASSUMPTIONS", []))


if __name__ == "__main__":
    try:
        sys.exit(main())
    except SystemExit:
        raise
    except BaseException:  # noqa: BLE001
        traceback.print_exc()
        print("CHECK-BROKEN (exit 2): harness error, not a property violation")
        sys.exit(2)
